"""C03 - expression evaluation follows the typed operator semantics."""

import collections
import datetime
import enum
import functools
import http
import itertools
import json
import math
import os
import re
import subprocess
import sys
import unicodedata
from fractions import Fraction

import fw
import progen

ID = 'C03'
LEVEL = 'proof'
LEAN_TARGETS = ['BareProofs.C03']
DRIVER = 'drv_c03'
DRIVER_ROOT = 'Drv.C03'
GEN = ['Alias']
THEOREMS = [
    'C03.once_left_to_right', 'C03.traceOf_shape', 'C03.and_or_lazy', 'C03.and_or_operand', 'C03.if_lazy',
    'C03.args_before_lookup', 'C03.undefined_keeps_effects', 'C03.keywords_win',
    'C03.binop_table', 'C03.stringify_scalars', 'C03.binop_numeric_partial', 'C03.ratPowNat_eq', 'C03.relops_are_sign_tests',
    'C03.relops_consistent', 'C03.compare_scalars',
    'C03.typeName_mem', 'C03.unsupported_is_null', 'C03.unsupported_count', 'C03.bool_is_not_number', 'C03.neg_table',
    'C03.truthy_table',
    'C03.alias_table_documented', 'C03.alias_resolves_to_target', 'C03.alias_lookup', 'C03.binding_wins_over_builtin',
]
ASSUMPTIONS = [
    'numbers: the model computes in exact rationals; the code in IEEE doubles. binop_numeric_partial (/ % **) and the + - * rows are exact '
    'statements about the model; the correspondence compares a case with the model only when every arithmetic step on the evaluated path '
    'was exactly representable (checked per step with Fractions), all other cases are checked against the Python reference evaluator only',
    'number text, datetime text and JSON text (value_string / value_json) are properties C13 / C16 / C14: the reference evaluator uses the '
    "implementation's value_string as the definition of stringification; the driver's datetime text is a placeholder, so cases that "
    'stringify a datetime, a negative zero or a number whose shortest repr is not its plain decimal expansion are reference-only',
    'datetimes on the wire are naive local wall-clock milliseconds (value_normalize_datetime of a naive datetime is the identity, a date is '
    'its midnight); aware datetimes and sub-millisecond offsets are reference-only (fractional milliseconds are outside the driver model)',
    'regular expression values cannot be sent to the driver: expressions over them are reference-only',
    'the TRACE instance of the theorems (calls recorded in a list, results given by a function of callee and arguments) abstracts the real '
    'call wrapper: it is the same evalExpr, instantiated; the real call-back (callValue) is exercised by the correspondence',
    'known findings F17 (int -> str beyond 4300 digits) and F18 (self-containing containers) are out of scope: never generated',
    'host boundary: a host value whose Python type is a subclass of int / float / str / list / dict / datetime / date (and overrides nothing) '
    'is sent to the driver as the language value it carries; host-supplied callables (stream host-calls) cannot be sent to the driver and '
    'the driver has no notion of the form of the options argument (none / {} / no log function / debug): those cases are checked on the '
    'implementation side (reference evaluator, invocation record, plain-value equivalence, documented alias target) and against the model '
    'only where the expression names no host function and the world has a log',
    'numbers at the edges of the number type (stream number-edges): the number type is the IEEE double, so a host int beyond 2^53 is not a value '
    'of the language (property C12 bounds the int spelling of a number by 1e15). The code computes * and ** of two host ints in floating point '
    '(fix F24) but + - % of two host ints in integer arithmetic: the sum / difference of two host ints beyond 2^53 and the sign of a zero '
    'remainder of two host ints (0 for ints, -0 for the same floats) are pinned by neither statement and are not generated. The position of '
    'not-a-number in the value order is the reference evaluator\'s (three-way test: neither below nor equal = above); the statement itself '
    'pins only that it equals no other number and that the six operators stay consistent (oracle number-comparison-laws)',
    'evaluations without a globals dict (options None / {} / globals None) carry no maxStatements: no script function is reachable from '
    'them (only values, library functions and host functions in the locals), so they cannot loop',
    'stream repeated-effects: the expression model handed to the evaluator may contain one sub-tree object at several places (a host-built model; '
    'the parser never produces one) - the evaluator only reads the model, so sharing must not be observable; cases whose repeated text names a '
    'host function are implementation-side only (reference evaluator, invocation record, site-labelled twin), those that only log go to the Lean '
    'machine too. stream alias-all-types is implementation-side only (functions, regexes, host values and the options forms are outside the driver); '
    'its numbers stay below 1e15 or at 1e300 / non-finite because numberToFixed / mathRound compute 10 ** digits for a huge finite digit count '
    '(minutes; argument validation of the library is properties C05 / C15); the text of the debug report of a failed call is compared after '
    'the implementation\'s fixed prefix `BareScript: Function "<name>" failed with error: `',
]
TRUSTED = ['reference evaluator, value pool and generators in harness/props/C03.py (the property oracle)',
           'library functions are used as uninterpreted functions by the reference evaluator (systemType, arrayNew, ... and the alias targets)']

OPS = ['**', '*', '/', '%', '+', '-', '<=', '<', '>=', '>', '==', '!=', '&&', '||']
ARITH = ['**', '*', '/', '%', '+', '-']
TYPE_NAMES = ['null', 'boolean', 'number', 'string', 'datetime', 'array', 'object', 'function', 'regex']

# the documented expression library (alias -> library function), written out from the library documentation
DOC_ALIASES = {
    'abs': 'mathAbs', 'acos': 'mathAcos', 'asin': 'mathAsin', 'atan': 'mathAtan', 'atan2': 'mathAtan2', 'ceil': 'mathCeil',
    'charCodeAt': 'stringCharCodeAt', 'cos': 'mathCos', 'date': 'datetimeNew', 'day': 'datetimeDay', 'endsWith': 'stringEndsWith',
    'fixed': 'numberToFixed', 'floor': 'mathFloor', 'fromCharCode': 'stringFromCharCode', 'hour': 'datetimeHour',
    'indexOf': 'stringIndexOf', 'lastIndexOf': 'stringLastIndexOf', 'len': 'stringLength', 'ln': 'mathLn', 'log': 'mathLog',
    'lower': 'stringLower', 'max': 'mathMax', 'millisecond': 'datetimeMillisecond', 'min': 'mathMin', 'minute': 'datetimeMinute',
    'month': 'datetimeMonth', 'now': 'datetimeNow', 'parseFloat': 'numberParseFloat', 'parseInt': 'numberParseInt', 'pi': 'mathPi',
    'rand': 'mathRandom', 'replace': 'stringReplace', 'rept': 'stringRepeat', 'round': 'mathRound', 'second': 'datetimeSecond',
    'sign': 'mathSign', 'sin': 'mathSin', 'slice': 'stringSlice', 'sqrt': 'mathSqrt', 'startsWith': 'stringStartsWith',
    'tan': 'mathTan', 'text': 'stringNew', 'today': 'datetimeToday', 'trim': 'stringTrim', 'upper': 'stringUpper',
    'year': 'datetimeYear',
}
NONDET = {'now', 'today', 'rand'}
MAXS = 1000


# ---------------------------------------------------------------------------------------------------------------------
# value specifications (JSON-able, used in cases / witnesses / corpus) <-> Python values <-> driver wire
# ---------------------------------------------------------------------------------------------------------------------

def build(spec, record=None):
    """spec -> Python runtime value (`record`: the list that host functions built from the spec append their invocations to)"""
    lib = fw.impl()['library']
    if spec is None or isinstance(spec, (bool, str)):
        return spec
    if isinstance(spec, list):
        return [build(x, record) for x in spec]
    (k, v), = spec.items()
    if k == 'num':
        return float.fromhex(v)
    if k == 'int':
        return int(v)
    if k == 'dt':
        return datetime.datetime(*v)
    if k == 'date':
        return datetime.date(*v)
    if k == 'dta':
        # an AWARE datetime: the naive local wall clock v[:7], as the same instant in the zone UTC + v[7] minutes
        return datetime.datetime(*v[:7]).astimezone().astimezone(datetime.timezone(datetime.timedelta(minutes=v[7])))
    if k == 'lib':
        return lib.SCRIPT_FUNCTIONS[v]
    if k == 're':
        return re.compile(v)
    if k == 'obj':
        return {kk: build(vv, record) for kk, vv in v}
    if k == 'sub':
        # a HOST value: an instance of a SUBCLASS of the Python type that carries the language value v[1] (see SUB_BUILDERS)
        return SUB_BUILDERS[v[0]](build(v[1], record))
    if k == 'hostfn':
        return make_host_fn(v, record if record is not None else [])
    raise ValueError(spec)


def build_env(gspecs, record=None):
    """name -> Python value; the spec {'same': other} binds the name to the SAME OBJECT as the global `other`"""
    env = {k: build(s, record) for k, s in gspecs.items() if not (isinstance(s, dict) and 'same' in s)}
    for k, s in gspecs.items():
        if isinstance(s, dict) and 'same' in s:
            env[k] = env[s['same']]
    return env


def fnum(x):
    return {'num': float(x).hex()}


class NotWireable(Exception):
    pass


def has_surrogate(s):
    return any(0xD800 <= ord(c) <= 0xDFFF for c in s)


EPOCH = datetime.datetime(1970, 1, 1)


def dt_ms(v):
    """naive local wall-clock milliseconds of a datetime/date (exact Fraction)"""
    if isinstance(v, datetime.datetime):
        if v.tzinfo is not None:
            raise NotWireable('aware datetime')
        dtv = v
    else:
        dtv = datetime.datetime(v.year, v.month, v.day)
    delta = dtv - EPOCH
    return Fraction(delta.days * 86400000000 + delta.seconds * 1000000 + delta.microseconds, 1000)


def mwire(v, lib):
    """Python value -> driver wire value (raises NotWireable)"""
    if isinstance(v, str) and has_surrogate(v):
        raise NotWireable('lone surrogate')           # not a Unicode scalar value: no Lean `Char`, no JSON text for it
    if v is None or isinstance(v, (bool, str)):
        return v
    if isinstance(v, (int, float)):
        if isinstance(v, float) and not math.isfinite(v):
            raise NotWireable('nonfinite')
        fr = Fraction(v)
        return {'n': [fr.numerator, fr.denominator]}
    if isinstance(v, datetime.date):
        ms = dt_ms(v)
        if ms.denominator != 1:
            raise NotWireable('sub-millisecond datetime')
        return {'d': int(ms)}
    if isinstance(v, list):
        return [mwire(x, lib) for x in v]
    if isinstance(v, dict):
        return {'o': [[mwire(k, lib), mwire(x, lib)] for k, x in v.items()]}
    if callable(v):
        for name, fn in lib.items():
            if fn is v:
                return {'f': name}
    raise NotWireable(type(v).__name__)


def canon(v, lib, depth=0):
    """Python value -> canonical comparison form (total); same shape as the driver's valueToJson"""
    if depth > 40:
        return '<deep>'
    if v is None or isinstance(v, (bool, str)):
        return v
    if isinstance(v, (int, float)):
        if isinstance(v, float) and not math.isfinite(v):
            return {'nonfinite': repr(v)}
        fr = Fraction(v)
        return {'n': [fr.numerator, fr.denominator]}
    if isinstance(v, datetime.date):
        try:
            ms = dt_ms(v)
        except NotWireable:
            return {'d-aware': v.isoformat()}
        return {'d': int(ms)} if ms.denominator == 1 else {'d-us': int(ms * 1000)}
    if isinstance(v, list):
        return [canon(x, lib, depth + 1) for x in v]
    if isinstance(v, dict):
        return {'o': [[k, canon(v[k], lib, depth + 1)] for k in sorted(v)]}
    if callable(v):
        if getattr(v, 'c03_script', False) or getattr(getattr(v, 'func', None), '__name__', '') == '_script_function':
            return {'f': 'script'}
        for name, fn in lib.items():
            if fn is v:
                return {'f': name}
        return {'f': 'other'}
    if isinstance(v, re.Pattern):
        return {'r': None}
    return {'unknown': type(v).__name__}


# ---------------------------------------------------------------------------------------------------------------------
# the host boundary: values whose Python type is a SUBCLASS of the type that carries a language value, and host callables
# ---------------------------------------------------------------------------------------------------------------------

class HostInt(int):
    """an int subclass that overrides nothing (like the integer scalars of numeric libraries)"""


class HostFloat(float):
    """a float subclass that overrides nothing (numpy.float64 is one)"""


class HostStr(str):
    """a str subclass that overrides nothing"""


class HostList(list):
    """a list subclass that overrides nothing"""


class HostDict(dict):
    """a dict subclass that overrides nothing"""


class HostStamp(datetime.datetime):
    """a datetime subclass that overrides nothing (pandas.Timestamp is one)"""


class HostDate(datetime.date):
    """a date subclass that overrides nothing"""


_ENUMS = {}


def _int_enum(x):
    key = ('int', int(x))
    if key not in _ENUMS:
        _ENUMS[key] = enum.IntEnum('HostLevel', {'M': int(x)})
    return _ENUMS[key].M


def _str_enum(x):
    key = ('str', str(x))
    if key not in _ENUMS:
        _ENUMS[key] = enum.Enum('HostWord', {'M': str(x)}, type=str)
    return _ENUMS[key].M


def _stamp(x):
    return HostStamp(x.year, x.month, x.day, x.hour, x.minute, x.second, x.microsecond, x.tzinfo)


SUB_BUILDERS = {
    'int-sub': lambda x: HostInt(int(x)),
    'int-enum': _int_enum,                                        # enum.IntEnum member
    'http-status': lambda x: http.HTTPStatus(int(x)),             # a standard-library IntEnum
    'float-sub': HostFloat,
    'str-sub': HostStr,
    'str-enum': _str_enum,                                        # class X(str, Enum) member
    'list-sub': HostList,
    'dict-sub': HostDict,
    'ordered-dict': collections.OrderedDict,
    'default-dict': lambda x: collections.defaultdict(list, x),
    'dt-sub': _stamp,
    'date-sub': lambda x: HostDate(x.year, x.month, x.day),
}


def plain_spec(spec):
    """the same language value carried by the plain Python type: every {'sub': [kind, base]} replaced by base"""
    if isinstance(spec, list):
        return [plain_spec(x) for x in spec]
    if isinstance(spec, dict):
        (k, v), = spec.items()
        if k == 'sub':
            return plain_spec(v[1])
        if k == 'obj':
            return {'obj': [[kk, plain_spec(vv)] for kk, vv in v]}
    return spec


def spec_has(spec, key):
    if isinstance(spec, list):
        return any(spec_has(x, key) for x in spec)
    if isinstance(spec, dict):
        (k, v), = spec.items()
        if k == key:
            return True
        if k == 'sub':
            return spec_has(v[1], key)
        if k == 'obj':
            return any(spec_has(vv, key) for _, vv in v)
        if k == 'hostfn':
            return spec_has(v.get('data'), key) or any(spec_has(x, key) for x in v.get('queue', []))
    return False


class HostError(Exception):
    """an application-defined exception"""


class HostTypeError(TypeError):
    """an application-defined TypeError"""


class HostBadStrError(Exception):
    """an exception that cannot be formatted: its __str__ raises"""

    def __str__(self):
        raise RuntimeError('no text for this error')


class HostNonStrError(Exception):
    """an exception whose __str__ does not return a string"""

    def __str__(self):
        return None


HOST_EXC = {
    'TypeError': TypeError, 'ValueError': ValueError, 'KeyError': KeyError, 'IndexError': IndexError, 'AttributeError': AttributeError,
    'ZeroDivisionError': ZeroDivisionError, 'OverflowError': OverflowError, 'RuntimeError': RuntimeError, 'StopIteration': StopIteration,
    'AssertionError': AssertionError, 'NotImplementedError': NotImplementedError, 'LookupError': LookupError, 'OSError': OSError,
    'RecursionError': RecursionError, 'MemoryError': MemoryError, 'NameError': NameError, 'HostError': HostError,
    'HostTypeError': HostTypeError, 'HostBadStrError': HostBadStrError, 'HostNonStrError': HostNonStrError,
}
# every signature accepts the documented call fn(args, options)
HOST_SIGS = ['two', 'opt', 'opt3', 'star', 'starkw', 'rest', 'lambda-opt', 'method', 'method-opt', 'partial', 'partial-kw', 'object',
             'static', 'class']
HOST_BODIES = ['first', 'add1', 'len', 'index', 'neg', 'join', 'sum', 'count', 'queue', 'raise', 'raise-first', 'raise-on-type', 'args-error',
               'runtime-error', 'ret', 'global', 'bump']


def make_host_fn(spec, record):
    """A host-supplied function value.  spec: {'name', 'sig' (HOST_SIGS: how the callable is declared), 'body' (HOST_BODIES: what it does),
    'exc' (the exception class it raises), 'data', 'queue'}.  EVERY invocation first appends [name, arguments] to `record` - its visible
    side effect - and only then does its work, which may fail part-way."""
    mods = fw.impl()
    lib = mods['library'].SCRIPT_FUNCTIONS
    name, body, data = spec.get('name', 'hf'), spec['body'], spec.get('data')
    exc = HOST_EXC[spec.get('exc', 'TypeError')]
    state = {'n': 0, 'queue': [build(x) for x in spec.get('queue', [])]}

    def core(args, options):
        state['n'] += 1
        record.append([name, canon(list(args), lib)])
        first = args[0] if args else None
        if body == 'first':
            return first
        if body == 'add1':
            return args[0] + 1                            # TypeError for a string / null / array ..., IndexError without arguments
        if body == 'len':
            return len(args[0])                           # TypeError for a number / null / datetime
        if body == 'index':
            return args[0][args[1]]                       # TypeError / IndexError / KeyError
        if body == 'neg':
            return -args[0]
        if body == 'join':
            return ','.join(args[0])
        if body == 'sum':
            return sum(args)
        if body == 'count':
            return state['n']                             # the number of invocations so far
        if body == 'queue':
            item = state['queue'].pop(0)                  # consumes one item per invocation (IndexError when exhausted)
            return item * args[0]                         # TypeError for a null item
        if body == 'raise':
            raise exc('host failure')
        if body == 'raise-first':
            if state['n'] == 1:
                raise exc('host failure (first invocation)')
            return first if args else state['n']
        if body == 'raise-on-type':
            if ref_type(first) == data:
                raise exc('host failure (argument type)')
            return first
        if body == 'args-error':
            raise mods['value'].ValueArgsError('value', first, build(data))
        if body == 'runtime-error':
            raise mods['runtime'].BareScriptRuntimeError('host function says no')
        if body == 'ret':
            return build(data)
        if body == 'global':
            return options['globals'].get(data)           # a host function that reads a global through its options argument
        if body == 'bump':
            glob = options['globals']                     # a host function that CHANGES a global (adds 1) and returns the new value
            glob[data] = (glob.get(data) or 0) + 1
            return glob[data]
        raise ValueError(body)

    sig = spec['sig']
    if sig == 'two':
        def fn(args, options):
            return core(args, options)
    elif sig == 'opt':
        def fn(args, options=None):
            return core(args, options)
    elif sig == 'opt3':
        def fn(args, options=None, extra=None):
            del extra
            return core(args, options)
    elif sig == 'star':
        def fn(*a):
            return core(a[0], a[1] if len(a) > 1 else None)
    elif sig == 'starkw':
        def fn(*a, **kw):
            del kw
            return core(a[0], a[1] if len(a) > 1 else None)
    elif sig == 'rest':
        def fn(args, *rest):
            return core(args, rest[0] if rest else None)
    elif sig == 'lambda-opt':
        fn = lambda args, options=None: core(args, options)       # pylint: disable=unnecessary-lambda-assignment
    elif sig in ('method', 'method-opt', 'object', 'static', 'class'):
        class Host:
            def call(self, args, options):
                return core(args, options)

            def call_opt(self, args, options=None):
                return core(args, options)

            def __call__(self, args, options=None):
                return core(args, options)

            @staticmethod
            def call_static(args, options=None):
                return core(args, options)

            @classmethod
            def call_class(cls, args, options=None):
                return core(args, options)
        host = Host()
        fn = {'method': host.call, 'method-opt': host.call_opt, 'object': host, 'static': host.call_static, 'class': Host.call_class}[sig]
    elif sig == 'partial':
        def tagged(tag, args, options=None):
            del tag
            return core(args, options)
        fn = functools.partial(tagged, 'tag')
    elif sig == 'partial-kw':
        def with_extra(args, options=None, extra=0):
            del extra
            return core(args, options)
        fn = functools.partial(with_extra, extra=1)
    else:
        raise ValueError(sig)
    return fn


# ---------------------------------------------------------------------------------------------------------------------
# the operand pool: every value type, bound as initial globals
# ---------------------------------------------------------------------------------------------------------------------

POOL = [
    ('vn', 'null', None),
    ('bt', 'boolean', True), ('bf', 'boolean', False),
    ('n0', 'number', fnum(0.0)), ('n1', 'number', fnum(1.0)), ('nm', 'number', fnum(-2.0)), ('nh', 'number', fnum(0.5)),
    ('nq', 'number', fnum(-3.75)), ('nz', 'number', fnum(-0.0)), ('ne', 'number', fnum(1e15)), ('nx', 'number', fnum(2.0 ** 53)),
    ('n7', 'number', fnum(7.0)), ('i3', 'number', {'int': 3}), ('i0', 'number', {'int': 0}),
    ('se', 'string', ''), ('sa', 'string', 'abc'), ('s5', 'string', '5'), ('sn', 'string', 'null'), ('sq', 'string', 'a"bé'),
    ('su', 'string', '\uff21\U0001f600'), ('sd', 'string', 'e\u0301'),
    ('d1', 'datetime', {'dt': [2024, 2, 29, 12, 30, 15, 250000]}), ('d0', 'datetime', {'dt': [1970, 1, 1, 0, 0, 0, 0]}),
    ('dd', 'datetime', {'date': [2024, 3, 1]}),
    ('ae', 'array', []), ('a1', 'array', [fnum(1.0), 'x"é', None]), ('a2', 'array', [[fnum(1.0)], [fnum(2.5), True]]),
    ('oe', 'object', {'obj': []}), ('o1', 'object', {'obj': [['k', fnum(1.0)], ['b', 'v']]}),
    ('fl', 'function', {'lib': 'systemType'}), ('tr', 'function', 'SCRIPT-TR'),
    ('rx', 'regex', {'re': 'a+'}),
]
# two representatives per type for the quick matrix (one where the type has a single interesting value)
QUICK_NAMES = ['vn', 'bt', 'bf', 'n0', 'nq', 'n7', 'se', 's5', 'd1', 'dd', 'ae', 'a1', 'oe', 'o1', 'fl', 'tr', 'rx']
POOL_TYPE = {name: ty for name, ty, _ in POOL}
LIB_IN_TREES = ['systemType', 'systemBoolean', 'arrayNew', 'arrayLength']

TR_STATEMENTS = [
    {'function': {'name': 'tr', 'args': ['tag', 'v'], 'statements': [
        {'expr': {'expr': {'function': {'name': 'systemLog', 'args': [{'variable': 'tag'}]}}}},
        {'return': {'expr': {'variable': 'v'}}}]}},
]


def pool_env(names=None):
    """name -> Python value for the pool (without `tr`, which the prelude script defines)"""
    return {name: build(spec) for name, _, spec in POOL if name != 'tr' and (names is None or name in names)}


def pool_specs(names=None):
    return {name: spec for name, _, spec in POOL if name != 'tr' and (names is None or name in names)}


# ---------------------------------------------------------------------------------------------------------------------
# the reference evaluator: written from the property statement (typed operator table, laziness, order), not from runtime.py
# ---------------------------------------------------------------------------------------------------------------------

class RefUndefined(Exception):
    def __init__(self, name):
        super().__init__(name)
        self.name = name


def ref_type(v):
    if v is None:
        return 'null'
    if isinstance(v, bool):
        return 'boolean'
    if isinstance(v, (int, float)):
        return 'number'
    if isinstance(v, str):
        return 'string'
    if isinstance(v, datetime.date):
        return 'datetime'
    if isinstance(v, list):
        return 'array'
    if isinstance(v, dict):
        return 'object'
    if callable(v):
        return 'function'
    if isinstance(v, re.Pattern):
        return 'regex'
    return 'unknown'


def ref_truthy(v):
    """null, false, 0, '' and the empty array are falsy; everything else is truthy"""
    t = ref_type(v)
    if t == 'null':
        return False
    if t == 'boolean':
        return v
    if t == 'number':
        return v != 0
    if t == 'string':
        return v != ''
    if t == 'array':
        return len(v) != 0
    return True


def ref_norm_dt(v):
    if isinstance(v, datetime.datetime):
        return v.astimezone().replace(tzinfo=None) if v.tzinfo is not None else v
    return datetime.datetime(v.year, v.month, v.day)


def cp_compare(a, b):
    """two strings are ordered as the sequences of their characters (code points); a proper prefix comes first"""
    la, lb = [ord(c) for c in a], [ord(c) for c in b]
    return (la > lb) - (la < lb)


def ref_compare(a, b):
    """the total value order: null first; same type by value (arrays/objects lexicographic); different types by type name"""
    ta, tb = ref_type(a), ref_type(b)
    if ta == 'null' or tb == 'null':
        return (ta != 'null') - (tb != 'null')
    if ta != tb:
        return -1 if ta < tb else 1
    if ta == 'datetime':
        a, b = ref_norm_dt(a), ref_norm_dt(b)
    if ta == 'string':
        return cp_compare(a, b)
    if ta in ('boolean', 'number', 'datetime'):
        return -1 if a < b else (0 if a == b else 1)
    if ta == 'array':
        for x, y in zip(a, b):
            c = ref_compare(x, y)
            if c:
                return c
        return (len(a) > len(b)) - (len(a) < len(b))
    if ta == 'object':
        ia, ib = sorted(a.items()), sorted(b.items())
        for (ka, va), (kb, vb) in zip(ia, ib):
            c = ref_compare(ka, kb) or ref_compare(va, vb)
            if c:
                return c
        return (len(ia) > len(ib)) - (len(ia) < len(ib))
    return 0


def model_num_text(fr):
    """the driver's decimal text of a rational (integers, terminating decimals up to 40 places); None beyond that"""
    if fr.denominator == 1:
        return str(fr.numerator)
    n = abs(fr.numerator)
    digits = []
    rem = n % fr.denominator
    for _ in range(40):
        if rem == 0:
            break
        rem *= 10
        digits.append(str(rem // fr.denominator))
        rem %= fr.denominator
    if rem:
        return None
    return ('-' if fr.numerator < 0 else '') + str(n // fr.denominator) + '.' + ''.join(digits)


class Ref:
    """One evaluation: value (or RefUndefined), effect log, and the flags that say why the driver model does not apply."""

    def __init__(self, globals_, locals_=None, builtins=False, optform='full'):
        self.mods = fw.impl()
        self.lib = self.mods['library'].SCRIPT_FUNCTIONS
        self.log = []
        self.flags = set()
        self.globals = globals_
        self.locals = locals_
        self.builtins = builtins
        # the options object that called functions receive (see OPTION_FORMS)
        self.options = make_options(optform, globals_, self.log)
        if self.options is not None and 'globals' in self.options and self.options['globals'] is not None:
            self.options['statementCount'] = 0

    def tr(self, args, unused_options):
        text = self.text(args[0] if args else None)
        if self.options is not None and 'logFn' in self.options:          # systemLog is silent without a log function
            self.log.append(text)
        return args[1] if len(args) > 1 else None

    # -- stringification (the implementation's value_string is the definition: properties C13 / C14 / C16) --------------
    def text(self, v):
        self.text_flags(v, True)
        if v is None:
            return 'null'
        if isinstance(v, bool):
            return 'true' if v else 'false'
        if isinstance(v, str):
            return v
        return self.mods['value'].value_string(v)

    def text_flags(self, v, top):
        if isinstance(v, bool) or v is None or isinstance(v, str):
            return
        if isinstance(v, (int, float)):
            if isinstance(v, float) and not math.isfinite(v):
                self.flags.add('nonfinite')
            elif isinstance(v, float) and v == 0 and math.copysign(1.0, v) < 0:
                self.flags.add('negzero-text')
            elif model_num_text(Fraction(v)) != self.mods['value'].value_string(v):
                self.flags.add('num-text')
        elif isinstance(v, datetime.date):
            self.flags.add('datetime-text')
        elif isinstance(v, list):
            for x in v:
                self.text_flags(x, False)
        elif isinstance(v, dict):
            for x in v.values():
                self.text_flags(x, False)
        elif isinstance(v, re.Pattern):
            self.flags.add('regex')

    # -- arithmetic: numbers are IEEE doubles; errors are null (F4) ------------------------------------------------------
    def arith(self, op, a, b):
        fa, fb = float(a), float(b)
        finite = math.isfinite(fa) and math.isfinite(fb)
        if not finite:
            self.flags.add('nonfinite')
        exact = None
        try:
            if op == '+':
                r = fa + fb
                exact = Fraction(fa) + Fraction(fb) if finite else None
            elif op == '-':
                r = fa - fb
                exact = Fraction(fa) - Fraction(fb) if finite else None
            elif op == '*':
                r = fa * fb
                exact = Fraction(fa) * Fraction(fb) if finite else None
            elif op == '/':
                r = fa / fb
                exact = Fraction(fa) / Fraction(fb) if finite else None
            elif op == '%':
                r = fa % fb
                if finite:
                    qa, qb = Fraction(fa), Fraction(fb)
                    exact = qa - qb * math.floor(qa / qb)
            else:
                r = fa ** fb
                if isinstance(r, complex):
                    return None
                if finite:
                    if fb != int(fb):
                        self.flags.add('fractional-exponent')
                    elif abs(fb) > 1100:
                        self.flags.add('big-exponent')
                    else:
                        exact = Fraction(fa) ** int(fb)
        except ZeroDivisionError:
            return None
        except OverflowError:
            self.flags.add('overflow')
            return None
        if not math.isfinite(r):
            self.flags.add('nonfinite')
        elif exact is None or Fraction(r) != exact:
            if finite and 'fractional-exponent' not in self.flags and 'big-exponent' not in self.flags:
                self.flags.add('inexact')
        return r

    def binop(self, op, a, b):
        """the typed operator table; every combination outside it is null"""
        ta, tb = ref_type(a), ref_type(b)
        if op in ('<=', '<', '>=', '>', '==', '!='):
            c = ref_compare(a, b)
            if ta == tb == 'number' and not (math.isfinite(float(a)) and math.isfinite(float(b))):
                self.flags.add('nonfinite')
            return {'<=': c <= 0, '<': c < 0, '>=': c >= 0, '>': c > 0, '==': c == 0, '!=': c != 0}[op]
        if ta == tb == 'number':
            return self.arith(op, a, b)
        if op == '+':
            if ta == 'string' or tb == 'string':
                try:
                    return self.text(a) + self.text(b)
                except ValueError:
                    self.flags.add('no-text')             # a container holding a non-finite number has no (JSON) text: null (fix F25)
                    return None
            if (ta, tb) in (('datetime', 'number'), ('number', 'datetime')):
                dtv, ms = (a, b) if ta == 'datetime' else (b, a)
                if isinstance(dtv, datetime.datetime) and dtv.tzinfo is not None:
                    self.flags.add('aware-datetime')
                if not math.isfinite(float(ms)) or float(ms) != int(float(ms)):
                    self.flags.add('fractional-ms')
                try:
                    return ref_norm_dt(dtv) + datetime.timedelta(milliseconds=ms)
                except (OverflowError, ValueError):
                    self.flags.add('datetime-range')
                    return None
            return None
        if op == '-' and ta == tb == 'datetime':
            ms = (ref_norm_dt(a) - ref_norm_dt(b)) / datetime.timedelta(milliseconds=1)
            if ms != int(ms):
                self.flags.add('fractional-ms')
            return float(math.floor(abs(ms) + 0.5)) * (1 if ms >= 0 else -1)
        return None

    # -- expressions -----------------------------------------------------------------------------------------------------
    def lookup_var(self, name):
        if self.locals is not None and name in self.locals:
            return self.locals[name]
        return self.globals.get(name)

    def lookup_func(self, name):
        if self.locals is not None and name in self.locals:
            return self.locals[name]
        if name in self.globals:
            return self.globals[name]
        if self.builtins and name in DOC_ALIASES:
            return self.lib[DOC_ALIASES[name]]
        return None

    def call(self, name, fn, args):
        if fn is None:
            raise RefUndefined(name)
        runtime, value = self.mods['runtime'], self.mods['value']
        try:
            return fn(args, self.options)
        except (runtime.BareScriptRuntimeError, self.mods['parser'].BareScriptParserError):
            raise
        except Exception as exc:  # pylint: disable=broad-except
            return exc.return_value if isinstance(exc, value.ValueArgsError) else None

    def ev(self, e):
        (k, v), = e.items()
        if k == 'number':
            return float(Fraction(v[0], v[1]))
        if k == 'string':
            return v
        if k == 'variable':
            if v in ('null', 'true', 'false'):
                return {'null': None, 'true': True, 'false': False}[v]
            val = self.lookup_var(v)
            if isinstance(val, re.Pattern):
                self.flags.add('regex')
            return val
        if k == 'group':
            return self.ev(v)
        if k == 'unary':
            x = self.ev(v['expr'])
            if v['op'] == '!':
                return not ref_truthy(x)
            return -x if ref_type(x) == 'number' else None
        if k == 'binary':
            op = v['op']
            left = self.ev(v['left'])
            if op == '&&':
                return self.ev(v['right']) if ref_truthy(left) else left
            if op == '||':
                return left if ref_truthy(left) else self.ev(v['right'])
            right = self.ev(v['right'])
            return self.binop(op, left, right)
        name, args = v['name'], v['args']
        if name == 'if':
            cond = self.ev(args[0]) if args else False
            branch = (args[1] if len(args) > 1 else None) if ref_truthy(cond) else (args[2] if len(args) > 2 else None)
            return self.ev(branch) if branch is not None else None
        vals = [self.ev(a) for a in args]                 # left to right, each exactly once, BEFORE the lookup
        return self.call(name, self.lookup_func(name), vals)


# ---------------------------------------------------------------------------------------------------------------------
# running one case: implementation, reference, (model request)
# ---------------------------------------------------------------------------------------------------------------------

def strip_library(g, keep):
    lib = fw.impl()['library'].SCRIPT_FUNCTIONS
    for k in list(g):
        if k not in keep and k in lib and g[k] is lib[k]:
            del g[k]


# The forms of the `options` argument of evaluate_expression (all legal): the usual dict; none at all; an empty dict; a dict whose
# `globals` is None; a dict without a log function; debug mode (failed calls are reported through logFn - those lines are not effects
# of the expression and are removed from the observed log); debug mode without a log function.
OPTION_FORMS = ['full', 'none', 'empty', 'globals-none', 'no-logfn', 'debug', 'debug-no-logfn']
NO_GLOBALS_FORMS = ('none', 'empty', 'globals-none')
NO_LOG_FORMS = ('none', 'empty', 'globals-none', 'no-logfn', 'debug-no-logfn')
DEBUG_LINE = 'BareScript: Function "'


def make_options(optform, g, log):
    if optform == 'full':
        return {'globals': g, 'maxStatements': MAXS, 'logFn': log.append}
    if optform == 'none':
        return None
    if optform == 'empty':
        return {}
    if optform == 'globals-none':
        return {'globals': None, 'maxStatements': MAXS}
    if optform == 'no-logfn':
        return {'globals': g, 'maxStatements': MAXS}
    if optform == 'debug':
        return {'globals': g, 'maxStatements': MAXS, 'logFn': log.append, 'debug': True}
    if optform == 'debug-no-logfn':
        return {'globals': g, 'maxStatements': MAXS, 'debug': True}
    raise ValueError(optform)


def impl_outcome(fn, out):
    """run fn() on the implementation; the outcome goes to out['result' | 'error' | 'hostexc']; -> the raw result"""
    mods = fw.impl()
    runtime, library, parser = mods['runtime'], mods['library'], mods['parser']
    res = None
    try:
        res = fn()
        out['result'] = canon(res, library.SCRIPT_FUNCTIONS)
    except runtime.BareScriptRuntimeError as exc:
        out['error'] = str(exc)
    except parser.BareScriptParserError as exc:
        out['error'] = 'ParserError ' + str(exc).split('\n', 1)[0]
    except RecursionError:
        out['hostexc'] = 'RecursionError'
    except Exception as exc:  # pylint: disable=broad-except
        try:
            out['hostexc'] = type(exc).__name__ + ': ' + str(exc)[:200]
        except Exception:  # pylint: disable=broad-except
            out['hostexc'] = type(exc).__name__ + ' (no text)'
    return res


def impl_expr_shared(e, memo):
    """protocol expression -> implementation expression model in which structurally equal sub-expressions are ONE object (an
    expression model built by a host that re-uses sub-trees: legal, the evaluator only reads the model)"""
    key = json.dumps(e, sort_keys=True)
    node = memo.get(key)
    if node is None:
        (k, v), = e.items()
        if k == 'number':
            node = {'number': float(Fraction(v[0], v[1]))}
        elif k in ('string', 'variable'):
            node = {k: v}
        elif k == 'group':
            node = {'group': impl_expr_shared(v, memo)}
        elif k == 'unary':
            node = {'unary': {'op': v['op'], 'expr': impl_expr_shared(v['expr'], memo)}}
        elif k == 'binary':
            node = {'binary': {'op': v['op'], 'left': impl_expr_shared(v['left'], memo), 'right': impl_expr_shared(v['right'], memo)}}
        else:
            node = {'function': {'name': v['name'], 'args': [impl_expr_shared(a, memo) for a in v['args']]}}
        memo[key] = node
    return node


def run_impl(mode, expr, env, locals_=None, builtins=False, optform='full', share=False):
    """-> (outcome dict {'result'|'error'|'hostexc', 'log'}, raw result object, globals dict used)"""
    runtime = fw.impl()['runtime']
    log = []
    g = dict(env) if optform not in NO_GLOBALS_FORMS else {}
    options = make_options(optform, g, log)
    out = {}

    def go():
        iexpr = impl_expr_shared(expr, {}) if share else progen.impl_expr(expr)
        if mode == 'exec':
            return runtime.execute_script({'statements': TR_STATEMENTS + [{'return': {'expr': iexpr}}]}, options)
        if optform not in NO_GLOBALS_FORMS:
            runtime.execute_script({'statements': TR_STATEMENTS}, options)
            strip_library(g, env)
        loc = dict(locals_) if locals_ is not None else None
        if optform == 'none' and loc is None and builtins:
            return runtime.evaluate_expression(iexpr)                 # every optional argument left out
        return runtime.evaluate_expression(iexpr, options, loc, builtins)
    res = impl_outcome(go, out)
    out['log'] = [ln for ln in log if not (optform == 'debug' and isinstance(ln, str) and ln.startswith(DEBUG_LINE))]
    return out, res, g


def make_ref(mode, env, locals_=None, builtins=False, optform='full'):
    library = fw.impl()['library']
    g = dict(env) if optform not in NO_GLOBALS_FORMS else {}
    if mode == 'exec':
        for name, fn in library.SCRIPT_FUNCTIONS.items():
            g.setdefault(name, fn)
    ref = Ref(g, dict(locals_) if locals_ is not None else None, builtins and mode != 'exec', optform)
    ref.tr.__func__.c03_script = True
    if optform not in NO_GLOBALS_FORMS:
        g['tr'] = ref.tr
    return ref


def ref_outcome(fn, out):
    res = None
    try:
        res = fn()
        out['result'] = canon(res, fw.impl()['library'].SCRIPT_FUNCTIONS)
    except RefUndefined as exc:
        out['error'] = f'Undefined function "{exc.name}"'
    except fw.impl()['runtime'].BareScriptRuntimeError as exc:
        out['error'] = str(exc)
    return res


def run_ref(mode, expr, env, locals_=None, builtins=False, optform='full'):
    """-> (outcome dict, raw result, Ref)"""
    ref = make_ref(mode, env, locals_, builtins, optform)
    out = {}
    res = ref_outcome(lambda: ref.ev(expr), out)
    out['log'] = list(ref.log)
    return out, res, ref


def model_request(mode, expr, env, locals_=None, builtins=False):
    """-> request dict or None when some value cannot be sent to the driver"""
    lib = fw.impl()['library'].SCRIPT_FUNCTIONS
    used = expr_vars(expr)
    wg = []
    try:
        for k, v in env.items():
            try:
                wg.append([k, mwire(v, lib)])
            except NotWireable:
                if k in used:                     # a global the expression never names need not exist in the model
                    raise
        wl = None
        if locals_ is not None:
            wl = []
            for k, v in locals_.items():
                try:
                    wl.append([k, mwire(v, lib)])
                except NotWireable:
                    if k in used:
                        raise
    except NotWireable:
        return None
    if mode == 'exec':
        script = progen.canon_script({'statements': TR_STATEMENTS + [{'return': {'expr': progen.impl_expr(expr)}}]})
        return {'op': 'exec', 'script': script, 'globals': wg, 'max': MAXS, 'fuel': 20000}
    return {'op': 'eval', 'expr': expr, 'script': progen.canon_script({'statements': TR_STATEMENTS}), 'globals': wg, 'locals': wl,
            'builtins': bool(builtins), 'max': MAXS, 'fuel': 20000}


def model_out(resp):
    return {k: resp[k] for k in ('result', 'error', 'log', 'oof', 'bad') if k in resp}


def expr_vars(e, acc=None):
    acc = set() if acc is None else acc
    (k, v), = e.items()
    if k == 'variable':
        acc.add(v)
    elif k == 'group':
        expr_vars(v, acc)
    elif k == 'unary':
        expr_vars(v['expr'], acc)
    elif k == 'binary':
        expr_vars(v['left'], acc)
        expr_vars(v['right'], acc)
    elif k == 'function':
        acc.add(v['name'])
        for a in v['args']:
            expr_vars(a, acc)
    return acc


def expr_depth(e):
    (k, v), = e.items()
    if k in ('number', 'string', 'variable'):
        return 1
    if k == 'group':
        return 1 + expr_depth(v)
    if k == 'unary':
        return 1 + expr_depth(v['expr'])
    if k == 'binary':
        return 1 + max(expr_depth(v['left']), expr_depth(v['right']))
    return 1 + max([expr_depth(a) for a in v['args']] or [0])


def text_of(expr):
    try:
        return progen.expr_text(expr)
    except Exception:  # pylint: disable=broad-except
        return None


class Case:
    """One expression evaluation: mode, expression, environment specs (globals / locals), builtins flag, form of the options argument."""

    def __init__(self, mode, expr, gspecs, lspecs=None, builtins=False, tags=(), identity=None, optform='full', share=False):
        self.mode, self.expr, self.gspecs, self.lspecs, self.builtins = mode, expr, gspecs, lspecs, builtins
        self.share = share                  # structurally equal sub-expressions are the SAME object in the implementation's model
        self.tags = list(tags)
        self.identity = identity            # (op, left variable, right variable) for the `is` oracle
        self.optform = optform
        self._hosted = None

    @property
    def hosted(self):
        if self._hosted is None:
            specs = [s for s in list(self.gspecs.values()) + list((self.lspecs or {}).values()) if isinstance(s, (dict, list)) and s]
            self._hosted = any(spec_has(s, 'hostfn') for s in specs)
        return self._hosted

    def input(self):
        d = {'mode': self.mode, 'text': text_of(self.expr), 'expr': self.expr, 'globals': self.gspecs}
        if self.lspecs is not None:
            d['locals'] = self.lspecs
        if self.mode != 'exec':
            d['builtins'] = self.builtins
        if self.identity:
            d['identity'] = list(self.identity)
        if self.optform != 'full':
            d['options'] = self.optform
        if self.share:
            d['share'] = True
        return d


def case_of_input(inp):
    return Case(inp['mode'], inp['expr'], inp['globals'], inp.get('locals'), inp.get('builtins', False),
                identity=tuple(inp['identity']) if inp.get('identity') else None, optform=inp.get('options', 'full'),
                share=bool(inp.get('share')))


HOST_ONCE = 'host-function-invoked-once-in-order'


def check_case(case, env=None, locals_=None):
    """Run implementation and reference on one case. -> (impl_out, ref, failures [(oracle, expected, actual)], env, locals)
    A case with host functions (stateful, recording) gets one freshly built environment per side."""
    rec_i, rec_r = [], []
    hosted = env is None and case.hosted
    if env is None:
        env = build_env(case.gspecs, rec_i)
    if locals_ is None and case.lspecs is not None:
        locals_ = build_env(case.lspecs, rec_i)
    impl, res, g = run_impl(case.mode, case.expr, env, locals_, case.builtins, case.optform, case.share)
    if hosted:
        env_r = build_env(case.gspecs, rec_r)
        loc_r = build_env(case.lspecs, rec_r) if case.lspecs is not None else None
    else:
        env_r, loc_r = env, locals_
    rout, _, ref = run_ref(case.mode, case.expr, env_r, loc_r, case.builtins, case.optform)
    fails = []
    if 'hostexc' in impl:
        fails.append(('no-host-exception', rout, impl))
    else:
        if ('error' in impl) != ('error' in rout) or impl.get('error') != rout.get('error') or impl.get('result') != rout.get('result'):
            fails.append(('typed-operator-value', {k: rout[k] for k in rout if k != 'log'}, {k: impl[k] for k in impl if k != 'log'}))
        if impl['log'] != rout['log']:
            fails.append(('evaluation-order-and-laziness', rout['log'], impl['log']))
    if hosted and rec_i != rec_r:
        fails.append((HOST_ONCE, rec_r, rec_i))
    if case.identity and 'result' in impl:
        op, lname, rname = case.identity
        lv = g.get(lname)
        rv = g.get(rname)
        decides = (not ref_truthy(lv)) if op == '&&' else ref_truthy(lv)
        want = lv if decides else rv
        if res is not want:
            fails.append(('and-or-returns-operand-itself', f'the {"left" if decides else "right"} operand object ({lname if decides else rname})',
                          repr(res)[:200]))
    return impl, ref, fails, env, locals_


class Batch:
    """Collects cases, sends the model-comparable ones to the driver in one batch, compares, reports witnesses."""

    def __init__(self, ctx, stream, st):
        self.ctx, self.stream, self.st = ctx, stream, st
        self.pending = []          # (case.input(), impl_out, request)
        self.shared_env = None

    def add(self, case, env=None, locals_=None, nontrivial=True, checked=None, extra_flags=(), key=None):
        impl, ref, fails, env, locals_ = checked if checked is not None else check_case(case, env, locals_)
        ref.flags.update(extra_flags)
        inp = None
        for oracle, want, got in fails:
            inp = inp or case.input()
            self.ctx.witness(oracle, inp, want, got)
        tags = list(case.tags)
        tags.append('error' if 'error' in impl else ('hostexc' if 'hostexc' in impl else 'value:' + result_type(impl.get('result'))))
        tags.append(f'log{min(len(impl["log"]), 6)}')
        req = None
        if case.builtins and case.mode == 'eval':
            bound = set(env) | set(locals_ or ())
            if any(n in DOC_ALIASES and n not in bound for n in expr_vars(case.expr)):
                ref.flags.add('builtin-call')      # the driver only records calls of built-ins: see stream `builtins`
        if case.optform in NO_LOG_FORMS and 'tr' in expr_vars(case.expr):
            ref.flags.add('no-log-function')           # the driver's world always has a log
        if not ref.flags:
            req = model_request(case.mode, case.expr, env, locals_, case.builtins)
        if req is None:
            tags.append('reference-only')
            for f in sorted(ref.flags) or ['not-wireable']:
                tags.append('ref-only:' + f)
        else:
            tags.append('model-compared')
            self.pending.append((case, impl, req))
        self.st.case([case.mode, case.expr, sorted(case.lspecs or {}), case.builtins] + ([key] if key is not None else []),
                     nontrivial=nontrivial, tags=tags)
        return impl, ref

    def flush(self):
        if not self.pending:
            return
        resps = self.ctx.driver.batch([req for _, _, req in self.pending])
        for (case, impl, _), resp in zip(self.pending, resps):
            self.ctx.compare(self.stream, case.input(), impl, model_out(resp))
        self.pending = []


def result_type(w):
    if w is None:
        return 'null'
    if isinstance(w, bool):
        return 'boolean'
    if isinstance(w, str):
        return 'string'
    if isinstance(w, list):
        return 'array'
    if isinstance(w, dict):
        k = next(iter(w))
        return {'n': 'number', 'nonfinite': 'number', 'd': 'datetime', 'd-us': 'datetime', 'd-aware': 'datetime', 'o': 'object', 'f': 'function',
                'r': 'regex'}.get(k, k)
    return 'unknown'


# ---------------------------------------------------------------------------------------------------------------------
# stream matrix: every operator x every pair of operand types x effect placements
# ---------------------------------------------------------------------------------------------------------------------

def var(name):
    return {'variable': name}


def traced(tag, e):
    return progen.call('tr', progen.string(tag), e)


def matrix_cases(ctx, names):
    placements = ['plain', 'both'] if ctx.quick else ['plain', 'both', 'left', 'right']
    gspecs = pool_specs()
    for op in OPS:
        for ln, rn in itertools.product(names, repeat=2):
            for pl in placements:
                left = traced('L', var(ln)) if pl in ('both', 'left') else var(ln)
                right = traced('R', var(rn)) if pl in ('both', 'right') else var(rn)
                yield Case('exec', progen.binop(op, left, right), gspecs,
                           tags=['op' + op, f'{POOL_TYPE[ln]}|{POOL_TYPE[rn]}', 'place:' + pl],
                           identity=(op, ln, rn) if op in ('&&', '||') and pl == 'plain' else None)
    for op in ('!', '-'):
        for name in names:
            for pl in ('plain', 'both'):
                operand = traced('U', var(name)) if pl == 'both' else var(name)
                yield Case('exec', progen.unop(op, operand), gspecs, tags=['unary' + op, POOL_TYPE[name], 'place:' + pl])


def stream_matrix(ctx):
    names = QUICK_NAMES if ctx.quick else [n for n, _, _ in POOL]
    st = ctx.stream('matrix', 'EXHAUSTIVE over operand types: all 14 binary operators x all ordered pairs of pool values '
                              f'({len(names)} values covering the 9 value types: null, true/false, numbers 0 / -0.0 / 1e15 / 2^53 / fractions / ints, '
                              "strings incl. '' / numeric-looking / (thorough) astral-plane and decomposed text, datetimes and a date, arrays, objects, library and script function values, "
                              'a regex) x effect placements (no / both / left / right operand wrapped in the logging call tr), plus both unary '
                              'operators: value and call log of execute_script vs the Python reference evaluator vs the Lean machine; '
                              '&&/|| must return the operand OBJECT itself; non-trivial = every case (distinct by operator, operands, placement)')
    env = pool_env()
    batch = Batch(ctx, 'matrix', st)
    for case in matrix_cases(ctx, names):
        batch.add(case, env=env)
    batch.flush()
    st.exhaustive = True


# ---------------------------------------------------------------------------------------------------------------------
# stream expr-eval: random expression trees to depth 6
# ---------------------------------------------------------------------------------------------------------------------

NUM_LITERALS = [0, 1, 2, 3, 5, 10, Fraction(1, 2), Fraction(5, 2), Fraction(3, 8), 1024, 10 ** 15, 2 ** 53]
STR_LITERALS = ['', 's', 'ab', '5', ' ', 'null', '\xe9', '\U0001f600\uff21']
LOCAL_SHADOWS = [None, True, {'num': (4.0).hex()}, 'loc', [], {'obj': []}, {'lib': 'arrayNew'}, {'dt': [2000, 1, 2, 3, 4, 5, 6000]}]


class TreeGen:
    def __init__(self, rng, names, maxdepth, calls=True, trace=True):
        self.rng, self.names, self.maxdepth, self.calls, self.trace = rng, names, maxdepth, calls, trace
        self.by_type = {}
        for n in names:
            self.by_type.setdefault(POOL_TYPE.get(n, 'function'), []).append(n)
        self.types = sorted(self.by_type)
        self.tag = 0
        self.kinds = set()

    def atom(self):
        r = self.rng.random()
        if r < 0.55:
            return var(self.rng.choice(self.by_type[self.rng.choice(self.types)]))
        if r < 0.75:
            return progen.num(self.rng.choice(NUM_LITERALS))
        if r < 0.85:
            return progen.string(self.rng.choice(STR_LITERALS))
        if r < 0.96:
            return var(self.rng.choice(['true', 'false', 'null']))
        return var('zz')                                  # unbound: null

    def operand_for_unary(self, e):
        return progen.group(e) if 'binary' in e else e

    def tree(self, depth=1):
        rng = self.rng
        if depth >= self.maxdepth or rng.random() < 0.08 + 0.06 * depth:
            e = self.atom()
        else:
            r = rng.random()
            if r < 0.58:
                op = rng.choice(OPS + ['+', '+', '&&', '||', '&&', '||', '<', '==', '-', '*'])
                left = self.tree(depth + 1)
                if op == '**':
                    right = progen.num(rng.choice([0, 1, 2, 3, 2, Fraction(1, 2)])) if rng.random() < 0.85 else self.tree(depth + 1)
                    if rng.random() < 0.3:
                        right = progen.unop('-', self.operand_for_unary(right))
                elif op == '/' and rng.random() < 0.5:
                    right = progen.num(rng.choice([2, 4, Fraction(1, 2), 1024]))
                else:
                    right = self.tree(depth + 1)
                e = progen.wf_binary(op, left, right)
                self.kinds.add('op' + op)
            elif r < 0.68:
                e = progen.unop(rng.choice(['!', '-']), self.operand_for_unary(self.tree(depth + 1)))
                self.kinds.add('unary')
            elif r < 0.73:
                e = progen.group(self.tree(depth + 1))
                self.kinds.add('group')
            elif r < 0.85:
                n = rng.choice([3, 3, 3, 3, 2, 2, 1, 0, 4])
                e = progen.call('if', *[self.tree(depth + 1) for _ in range(n)])
                self.kinds.add(f'if{n}')
            elif r < 0.95 and self.calls:
                fn = rng.choice(LIB_IN_TREES)
                n = rng.choice([0, 1, 2, 2, 3]) if fn == 'arrayNew' else 1     # exact arity: argument validation is property C05/C15
                e = progen.call(fn, *[self.tree(depth + 1) for _ in range(n)])
                self.kinds.add('call-lib')
            else:
                fn = rng.choice(['nope', 'nope', 'vn', 'n1', 'sa', 'fl'])       # unbound / bound to null / not callable / a function value
                e = progen.call(fn, *[self.tree(depth + 1) for _ in range(1 if fn == 'fl' else rng.choice([0, 1, 2, 2]))])
                self.kinds.add('call-' + ('undefined' if fn in ('nope', 'vn') else ('value' if fn != 'fl' else 'fnvalue')))
        if rng.random() < 0.3 and self.trace:
            self.tag += 1
            e = traced(f't{self.tag}', e)
        return e


def tree_case(rng, index):
    names = [n for n, _, _ in POOL if n != 'tr']
    if rng.random() < 0.8:
        names = [n for n in names if n != 'rx']           # most trees stay inside the driver model
    maxdepth = rng.choice([2, 3, 4, 5, 6, 6, 6])
    gen = TreeGen(rng, names + ['tr'], maxdepth)
    expr = gen.tree()
    gspecs = pool_specs()
    tags = [f'depth{min(expr_depth(expr), 9)}'] + sorted(gen.kinds)
    if index % 10 < 7:
        return Case('exec', expr, gspecs, tags=tags + ['mode:exec'])
    for fn in LIB_IN_TREES + ['systemLog']:
        gspecs[fn] = {'lib': fn}
    lspecs = None
    if rng.random() < 0.7:
        lspecs = {}
        for _ in range(rng.randint(0, 4)):
            lspecs[rng.choice(names + ['zz', 'nope', 'systemType'])] = rng.choice(LOCAL_SHADOWS)
    return Case('eval', expr, gspecs, lspecs, builtins=rng.random() < 0.5, tags=tags + ['mode:eval' + ('+locals' if lspecs else '')])


def stream_expr_eval(ctx):
    st = ctx.stream('expr-eval', 'random expression trees to depth 6 (all 14 operators, unary, groups, if with 0-4 arguments, library calls, '
                                 'calls of undefined / null-bound / non-callable names, ~30% of nodes wrapped in the logging call tr) over the whole '
                                 'value pool bound as globals; 70% as `return <expr>` through execute_script, 30% through evaluate_expression with '
                                 'locals shadowing globals and the builtins flag: value + call log, implementation vs Python reference evaluator '
                                 '(typed table, laziness, order) vs Lean machine (when every arithmetic step is exact and no datetime/-0/regex is '
                                 'stringified); non-trivial = at least 3 nodes deep')
    rng = ctx.rng('expr-eval')
    batch = Batch(ctx, 'expr-eval', st)
    env_exec = pool_env()
    for i in range(ctx.scale(15000, 150000)):
        case = tree_case(rng, i)
        env = env_exec if case.mode == 'exec' else None
        batch.add(case, env=env, nontrivial=expr_depth(case.expr) >= 3)
    batch.flush()


# ---------------------------------------------------------------------------------------------------------------------
# stream builtins: every alias through evaluate_expression(builtins=True) vs its documented target called directly
# ---------------------------------------------------------------------------------------------------------------------

ARG_POOL = {
    'num': [0, 1, 2, 3, -2, Fraction(1, 2), Fraction(-15, 4), Fraction(5, 2), 10, 100, Fraction(1, 4), 1024, 16],
    'str': ['', 'abc', ' Abc  ', 'a,b,a', '5', '3.5', 'xyz', 'A', 'ab'],
    'any': [None, True, False],
}
ALIAS_SIG = {
    'math': ['num', 'num'], 'string': ['str', 'str', 'num'], 'number': ['num', 'num'], 'datetime': ['dt'],
}
SPECIAL_SIG = {'datetimeNew': ['year', 'month', 'day', 'num', 'num'], 'stringFromCharCode': ['code', 'code'], 'stringRepeat': ['str', 'small'],
               'numberParseInt': ['str', 'radix'], 'numberParseFloat': ['str'], 'stringNew': ['anyv'], 'stringCharCodeAt': ['str', 'small'],
               'stringSlice': ['str', 'small', 'small'], 'numberToFixed': ['num', 'small', 'any'], 'mathRound': ['num', 'small']}


def arg_expr(rng, kind):
    """an argument expression (protocol form) of the requested flavour; sometimes an operator expression, to exercise evaluation"""
    if kind == 'dt':
        return var(rng.choice(['d1', 'd0', 'dd']))
    if kind == 'year':
        return progen.num(rng.choice([1970, 2000, 2024]))
    if kind == 'month':
        return progen.num(rng.choice([1, 2, 12, 13]))
    if kind == 'day':
        return progen.num(rng.choice([1, 28, 31]))
    if kind == 'code':
        return progen.num(rng.choice([65, 97, 233, 8364]))
    if kind == 'small':
        return progen.num(rng.choice([0, 1, 2, 3, 5]))
    if kind == 'radix':
        return progen.num(rng.choice([2, 10, 16, 36, 1]))
    if kind == 'anyv':
        kind = rng.choice(['num', 'str', 'any', 'dt', 'arr'])
        if kind == 'arr':
            return var(rng.choice(['a1', 'ae', 'o1']))
        if kind == 'dt':
            return var('d1')
    r = rng.random()
    if r < 0.12:
        kind = rng.choice(['num', 'str', 'any'])          # a wrong-typed argument: the failure behaviour must be the target's too
    if kind == 'any':
        return var(rng.choice(['null', 'true', 'false']))
    if kind == 'str':
        s = progen.string(rng.choice(ARG_POOL['str']))
        return progen.wf_binary('+', s, progen.string(rng.choice(['', 'Z']))) if rng.random() < 0.2 else s
    x = rng.choice(ARG_POOL['num'])
    if x < 0:
        return progen.wf_binary('-', progen.num(0), progen.num(-x))
    e = progen.num(x)
    if rng.random() < 0.2:
        e = progen.wf_binary(rng.choice(['+', '*']), e, progen.num(rng.choice([1, 2])))
    return e


def alias_args(rng, target):
    sig = SPECIAL_SIG.get(target)
    if sig is None:
        prefix = re.match(r'[a-z]+', target).group(0)
        sig = ALIAS_SIG.get(prefix, ['num'])
    r = rng.random()
    if r < 0.65:
        n = len(sig) if rng.random() < 0.6 else rng.randint(0, len(sig))
    else:
        n = rng.randint(0, 3)
    kinds = [(sig[i] if i < len(sig) else rng.choice(['num', 'str', 'any'])) for i in range(n)]
    if target in ('mathMax', 'mathMin'):
        kinds = ['num'] * rng.randint(0, 4)
    return [arg_expr(rng, k) for k in kinds]


# the shadowing function is arrayNew: it accepts any number of arguments (argument validation is not this property)
SHADOWS = [('global-fn', {'lib': 'arrayNew'}), ('global-value', {'num': (5.0).hex()}), ('global-null', None),
           ('local-fn', {'lib': 'arrayNew'}), ('local-null', None), ('both', None)]


def stream_builtins(ctx):
    st = ctx.stream('builtins', 'expression mode: each of the 46 documented built-ins called through evaluate_expression(builtins=True) with '
                                'typed and mistyped argument expressions vs (oracle) the documented target library function called directly on the '
                                'same argument values, incl. failure behaviour; with builtins=False the name is undefined; a name bound in the '
                                'globals (function, plain value, null) or in the locals wins over the built-in; the Lean machine resolves the '
                                'alias through the generated table and its recorded call is replayed on the real target; non-trivial = result '
                                'is not null')
    mods = fw.impl()
    runtime, library = mods['runtime'], mods['library']
    lib = library.SCRIPT_FUNCTIONS
    rng = ctx.rng('builtins')
    per_alias = ctx.scale(40, 300)
    base_specs = {k: s for k, s in pool_specs().items() if k in ('d1', 'd0', 'dd', 'a1', 'ae', 'o1')}
    pending = []
    # the implementation's own table must be the documented one (the Lean obligation alias_table_documented says the same of Gen.aliases)
    if dict(library.EXPRESSION_FUNCTION_MAP) != DOC_ALIASES:
        diff = sorted(set(library.EXPRESSION_FUNCTION_MAP.items()) ^ set(DOC_ALIASES.items()))
        ctx.notes.append(f'EXPRESSION_FUNCTION_MAP differs from the documented table: {diff[:6]}')
    for alias, target in sorted(DOC_ALIASES.items()):
        for i in range(per_alias):
            args = alias_args(rng, target)
            expr = progen.call(alias, *args)
            variant = 'builtin' if i % 5 < 3 else ('no-builtins' if i % 5 == 3 else rng.choice(SHADOWS)[0])
            gspecs = dict(base_specs)
            lspecs = None
            builtins = variant != 'no-builtins'
            if variant.startswith('global'):
                gspecs[alias] = dict(SHADOWS)[variant]
            elif variant.startswith('local'):
                lspecs = {alias: dict(SHADOWS)[variant]}
            elif variant == 'both':
                gspecs[alias] = {'lib': 'systemLog'}
                lspecs = {alias: {'lib': 'arrayNew'}}
            case = Case('eval', expr, gspecs, lspecs, builtins, tags=['alias:' + alias, 'variant:' + variant])
            env = {k: build(s) for k, s in gspecs.items()}
            locals_ = {k: build(s) for k, s in lspecs.items()} if lspecs is not None else None
            impl, res, _ = run_impl('eval', expr, env, locals_, builtins)
            inp = case.input()
            # --- oracle: the documented target called directly with the same argument values
            argvals = []
            for a in args:
                _, v, _ = run_impl('eval', a, env, locals_, builtins)
                argvals.append(v)
            if variant == 'builtin':
                want = direct_call(lib.get(target), argvals, env)
            elif variant == 'no-builtins':
                want = {'error': f'Undefined function "{alias}"'}
            else:
                bound = locals_[alias] if locals_ is not None and alias in locals_ else env[alias]
                want = {'error': f'Undefined function "{alias}"'} if bound is None else direct_call(bound, argvals, env)
            got = {k: impl[k] for k in impl if k != 'log'}
            ok = same_outcome(alias if variant == 'builtin' else None, want, got, res)
            if not ok:
                ctx.witness('alias-is-documented-target' if variant == 'builtin' else 'binding-wins-over-builtin', inp, want, got)
            st.case([alias, expr, variant], nontrivial=impl.get('result') is not None,
                    tags=['variant:' + variant, 'error' if 'error' in impl else 'value:' + result_type(impl.get('result'))])
            req = model_request('eval', expr, env, locals_, builtins)
            if req is not None:
                pending.append((inp, alias, variant, impl, req, env))
    resps = ctx.driver.batch([p[4] for p in pending])
    for (inp, alias, variant, impl, _, env), resp in zip(pending, resps):
        pred = replay_model_calls(resp, env)
        got = {k: impl[k] for k in impl if k != 'log'}
        if alias in NONDET and variant == 'builtin' and 'result' in got and 'result' in pred:
            got, pred = {'result': result_type(got['result'])}, {'result': result_type(pred['result'])}
        ctx.compare('builtins', inp, got, pred)
    del runtime


def direct_call(fn, argvals, env):
    """the call wrapper's contract around a direct library call: ValueArgsError -> its return value, other exceptions -> null"""
    mods = fw.impl()
    lib = mods['library'].SCRIPT_FUNCTIONS
    if fn is None:
        return {'error': 'no such library function'}
    try:
        return {'result': canon(fn(list(argvals), {'globals': dict(env)}), lib)}
    except mods['runtime'].BareScriptRuntimeError as exc:
        return {'error': str(exc)}
    except Exception as exc:  # pylint: disable=broad-except
        return {'result': canon(exc.return_value if isinstance(exc, mods['value'].ValueArgsError) else None, lib)}


def same_outcome(alias, want, got, res):
    if alias in NONDET and 'result' in want and 'result' in got:
        return result_type(want['result']) == result_type(got['result'])
    del res
    return want == got


def from_model_wire(w):
    lib = fw.impl()['library'].SCRIPT_FUNCTIONS
    if w is None or isinstance(w, (bool, str)):
        return w
    if isinstance(w, list):
        return [from_model_wire(x) for x in w]
    (k, v), = w.items()
    if k == 'n':
        return float(Fraction(v[0], v[1]))
    if k == 'd':
        return EPOCH + datetime.timedelta(milliseconds=v)
    if k == 'o':
        return {kk: from_model_wire(vv) for kk, vv in v}
    if k == 'f':
        return lib.get(v)
    raise ValueError(w)


def replay_model_calls(resp, env):
    """The driver records a call of an unmodelled library function as `CALL <name> <args>` and returns null: replay the
    (single, outermost) recorded call on the real library function to obtain the model's prediction."""
    out = model_out(resp)
    calls = [ln for ln in out.get('log', []) if ln.startswith('CALL ')]
    if 'result' in out and out['result'] is None and len(calls) == 1:
        _, name, js = calls[0].split(' ', 2)
        fn = fw.impl()['library'].SCRIPT_FUNCTIONS.get(name)
        return direct_call(fn, [from_model_wire(x) for x in json.loads(js)], env)
    return {k: out[k] for k in out if k != 'log'}


# ---------------------------------------------------------------------------------------------------------------------
# stream string-order: the six comparison operators (and +) on strings from every Unicode plane, normalisation form and case
# ---------------------------------------------------------------------------------------------------------------------

REL_OPS = ['<', '<=', '>', '>=', '==', '!=']
ORDER_REPORT_CAP = 24          # failing pairs reported (operator by operator) per run of the stream

# characters at the edges where an order other than the code point order (UTF-16 code units, a locale collation, a case- or
# normalisation-insensitive comparison, a numeric-aware comparison, a C string, a trimmed string) gives another answer
UNI_CHARS = [
    '\x00', '\t', ' ', '0', '9', 'A', 'Z', '_', 'a', 'b', 'e', 'z', '~', '\x7f',                      # ASCII incl. controls
    '\x80', '\xa0', '\xc5', '\xdf', '\xe4', '\xe9', '\xff',                                            # Latin-1
    '\u0130', '\u0131', '\u017f', '\u0301', '\u030a', '\u03a3', '\u03c2', '\u03c3', '\u0430', '\u0663', '\u07ff',   # 2-byte UTF-8
    '\u0800', '\u1100', '\u1161', '\u200b', '\u2028', '\u212a', '\u212b', '\u4e2d', '\uac00', '\ud7ff',      # BMP below the surrogates
    '\ue000', '\uf900', '\ufb01', '\ufeff', '\uff21', '\uff41', '\ufffd', '\uffff',                          # BMP above the surrogates
    '\U00010000', '\U00010400', '\U00010428', '\U0001d400', '\U0001f600', '\U0002f800', '\U000e0001', '\U0010ffff',   # planes 1, 2, 14, 16
    '\ud800', '\udbff', '\udc00', '\udfff',                                                                   # lone surrogates (a Python str holds them)
]
# words with several canonically / compatibly / case-insensitively equivalent spellings
UNI_WORDS = ['caf\xe9', '\xc5ngstr\xf6m', '\u212b', '\ufb01n', '\uac00\uac01', '\uff21\uff42\uff11', '\u0130stanbul', 'Stra\xdfe',
             '\u03a3\u03af\u03c3\u03c5\u03c6\u03bf\u03c2', '\u1e9b\u0323', '\u01c5', '\u2126', '\u0958', 'e\u0323\u0301',
             '\U0001d400\U0001d41b', '\U0002f800', '\U00010400\U00010428', 'a\u0308\uffe3', '10', '1e3', 'x\U0001f1e6\U0001f1e8']
PREFIXES = ['a', '\U0001f600', 'e', '\uffff', '']
ORDER_FORMS = ['var', 'lit', 'prefix', 'var', 'arr', 'objv', 'var', 'objk', 'arr2', 'lit']


def spellings(word):
    """every normalisation form, case mapping and padded variant of a word (all DISTINCT strings: distinct values for the language)"""
    out = [word]
    for form in ('NFC', 'NFD', 'NFKC', 'NFKD'):
        out.append(unicodedata.normalize(form, word))
    out += [word.lower(), word.upper(), word.casefold(), word.title(), word.swapcase(), ' ' + word, word + ' ', '\ufeff' + word,
            word + '\u200b', word + '\x00', word + '\x00a', word + word[-1:], word[:-1]]
    seen = []
    for w in out:
        if w not in seen:
            seen.append(w)
    return seen


def char_class(c):
    o = ord(c)
    if o < 0x80:
        return 'ascii'
    if o < 0x100:
        return 'latin1'
    if o < 0x800:
        return 'bmp-2byte'
    if o < 0xD800:
        return 'bmp-low'
    if o < 0xE000:
        return 'surrogate'
    if o < 0x10000:
        return 'bmp-high'
    return 'astral'


def order_tags(s, t):
    """where the two strings first differ (classes of the two characters) and which coarser equivalences relate them"""
    if s == t:
        return ['diff:identical']
    i = 0
    while i < len(s) and i < len(t) and s[i] == t[i]:
        i += 1
    a = char_class(s[i]) if i < len(s) else 'end'
    b = char_class(t[i]) if i < len(t) else 'end'
    tags = ['diff:' + '|'.join(sorted([a, b]))]
    try:
        if (s.encode('utf-16-be', 'surrogatepass') < t.encode('utf-16-be', 'surrogatepass')) != (cp_compare(s, t) < 0):
            tags.append('rel:utf16-order-differs')
    except UnicodeError:
        pass
    for form in ('NFC', 'NFKC'):
        if unicodedata.normalize(form, s) == unicodedata.normalize(form, t):
            tags.append('rel:' + form.lower() + '-equivalent')
            break
    if s.casefold() == t.casefold():
        tags.append('rel:casefold-equal')
    if s.strip() == t.strip():
        tags.append('rel:strip-equal')
    if s.split('\x00')[0] == t.split('\x00')[0]:
        tags.append('rel:equal-up-to-nul')
    return tags


def order_operands(form, s, t, prefix=''):
    """-> (left operand expression, right operand expression, globals specs, operands are strings?)  Every form is ORDER-EMBEDDING:
    its two operands compare exactly as s and t do (same prefix prepended; one-element arrays; one-member objects by value or key)."""
    if form == 'lit':
        return progen.string(s), progen.string(t), {}, True
    if form == 'prefix':
        return (progen.binop('+', progen.string(prefix), var('p')), progen.binop('+', progen.string(prefix), var('q')),
                {'p': s, 'q': t}, True)
    g = {'var': (s, t), 'arr': ([s], [t]), 'arr2': (['k', [s, None]], ['k', [t, None]]),
         'objv': ({'obj': [['k', s]]}, {'obj': [['k', t]]}), 'objk': ({'obj': [[s, None]]}, {'obj': [[t, None]]})}[form]
    return var('p'), var('q'), {'p': g[0], 'q': g[1]}, form == 'var'


def order_case(form, mode, s, t, prefix='', ops=None, tags=()):
    """arrayNew(L < R, L <= R, L > R, L >= R, L == R, L != R [, L + R]) - or a single operator when `ops` names one"""
    left, right, gspecs, strings = order_operands(form, s, t, prefix)
    if ops is None:
        items = [progen.binop(op, left, right) for op in REL_OPS]
        if strings:
            items.append(progen.binop('+', left, right))
        expr = progen.call('arrayNew', *items)
        if mode == 'eval':
            gspecs['arrayNew'] = {'lib': 'arrayNew'}
    else:
        expr = progen.binop(ops, left, right)
    return Case(mode, expr, gspecs, tags=list(tags))


def expr_has_surrogate(e):
    (k, v), = e.items()
    if k == 'string':
        return has_surrogate(v)
    if k == 'group':
        return expr_has_surrogate(v)
    if k == 'unary':
        return expr_has_surrogate(v['expr'])
    if k == 'binary':
        return expr_has_surrogate(v['left']) or expr_has_surrogate(v['right'])
    if k == 'function':
        return any(expr_has_surrogate(a) for a in v['args'])
    return False


def order_add(batch, form, mode, s, t, prefix=''):
    """One pair through implementation / reference / model. A failing pair is reported per OPERATOR (the smallest failing expression).
    -> the implementation's six answers [<, <=, >, >=, ==, !=] or None"""
    tags = ['form:' + form, 'mode:' + mode] + order_tags(s, t)
    case = order_case(form, mode, s, t, prefix, tags=tags)
    checked = check_case(case)
    if checked[2] and getattr(batch, 'order_failures', 0) >= ORDER_REPORT_CAP:
        tags.append('failure-not-reported(cap)')                                     # enough witnesses of this stream already
        checked = (checked[0], checked[1], [], checked[3], checked[4])
        case.tags = tags
    elif checked[2]:
        batch.order_failures = getattr(batch, 'order_failures', 0) + 1
        reported = False
        for op in REL_OPS + ['+']:
            single = order_case(form, mode, s, t, prefix, ops=op, tags=tags)
            one = check_case(single)
            for oracle, want, got in one[2]:
                batch.ctx.witness(oracle, single.input(), want, got)
                reported = True
        if reported:
            checked = (checked[0], checked[1], [], checked[3], checked[4])       # already reported, operator by operator
    flags = ['lone-surrogate'] if expr_has_surrogate(case.expr) else []
    impl, _ = batch.add(case, nontrivial=s != t, checked=checked, extra_flags=flags, key=[form, s, t])
    res = impl.get('result')
    if isinstance(res, list) and len(res) >= 6 and all(isinstance(x, bool) for x in res[:6]):
        return res[:6]
    return None


def rel_impl(s, t):
    """the implementation's six answers for two string variables (expression mode, nothing else in scope)"""
    case = order_case('var', 'eval', s, t)
    impl, _, _ = run_impl('eval', case.expr, {k: build(v) for k, v in case.gspecs.items()})
    res = impl.get('result')
    return res[:6] if isinstance(res, list) and len(res) >= 6 else None


def law_failure(law, strings):
    """the laws of a total order on DISTINCT-or-identical strings, evaluated on the implementation. -> description of the failure or None"""
    if law == 'operators-consistent':
        a, b = strings
        r, r2 = rel_impl(a, b), rel_impl(b, a)
        if r is None or r2 is None:
            return f'no answers: {r} {r2}'
        lt, le, gt, ge, eq, ne = r
        ok = (lt + eq + gt == 1 and le == (lt or eq) and ge == (gt or eq) and ne == (not eq) and lt == r2[2] and gt == r2[0]
              and eq == r2[4] and eq == (lang_key(a) == lang_key(b)))
        return None if ok else f'a?b [<,<=,>,>=,==,!=] = {r}, b?a = {r2}'
    a, b, c = strings
    ab, bc, ac = rel_impl(a, b), rel_impl(b, c), rel_impl(a, c)
    if ab is None or bc is None or ac is None:
        return 'no answers'
    return f'a < b = {ab[0]}, b < c = {bc[0]}, a < c = {ac[0]}' if ab[0] and bc[0] and not ac[0] else None


LAW_TEXT = {
    'operators-consistent': 'exactly one of a < b, a == b, a > b; <= is < or ==; >= is > or ==; != is not ==; a < b iff b > a; '
                            'a == b iff a and b are the same value of the language (strings: the same sequence of characters; a boolean '
                            'is never a number; arrays / objects member by member)',
    'transitive': 'a < b and b < c imply a < c',
}


def order_laws(ctx, pool, answers):
    """answers[i][j] = the six answers of the implementation for (pool[i], pool[j]) in whichever order-embedding form the pair was run.
    Candidates found in the matrix are confirmed on plain string variables before they are reported."""
    n = len(pool)
    cands = []
    keys = [lang_key(x) for x in pool]          # the pool holds value specs (a string is its own spec)
    for i in range(n):
        for j in range(i, n):
            r, r2 = answers[i][j], answers[j][i]
            if r is None or r2 is None:
                continue
            lt, le, gt, ge, eq, ne = r
            if not (lt + eq + gt == 1 and le == (lt or eq) and ge == (gt or eq) and ne == (not eq) and lt == r2[2] and gt == r2[0]
                    and eq == r2[4] and eq == (keys[i] == keys[j])):
                cands.append(('operators-consistent', [pool[i], pool[j]]))
    below = [0] * n                     # bit j of below[i]: pool[i] < pool[j]
    for i in range(n):
        for j in range(n):
            if answers[i][j] is not None and answers[i][j][0]:
                below[i] |= 1 << j
    for i in range(n):
        for j in range(n):
            if below[i] >> j & 1:
                missing = below[j] & ~below[i]
                if missing:
                    k = missing.bit_length() - 1
                    if answers[i][k] is not None:
                        cands.append(('transitive', [pool[i], pool[j], pool[k]]))
    reported = 0
    for law, strings in cands:
        got = law_failure(law, strings)
        if got is not None:
            ctx.witness('total-order-laws', {'law': law, 'strings': strings}, LAW_TEXT[law], got)
            reported += 1
            if reported >= 10:
                break


def random_text(rng, lo=0, hi=4):
    return ''.join(rng.choice(UNI_CHARS[:-4] if rng.random() < 0.9 else UNI_CHARS) for _ in range(rng.randint(lo, hi)))


def random_pair(rng):
    base = random_text(rng, 0, 3) if rng.random() < 0.7 else rng.choice(UNI_WORDS)
    r = rng.random()
    if r < 0.55:
        return base + random_text(rng, 0, 3), base + random_text(rng, 0, 3)          # common prefix, then anything (or the end)
    s = base + random_text(rng, 0, 2)
    if r < 0.80:
        form = rng.choice(['NFC', 'NFD', 'NFKC', 'NFKD'])
        try:
            t = unicodedata.normalize(form, s)
        except (UnicodeError, ValueError):
            t = s
    elif r < 0.92:
        t = rng.choice([s.lower(), s.upper(), s.casefold(), s.swapcase(), s.strip(), s + ' ', s[::-1]])
    else:
        t = 'a' * 70 + s                                                                # a long common prefix
        s = 'a' * 70 + random_text(rng, 0, 2)
    return (s, t) if rng.random() < 0.5 else (t, s)


def stream_string_order(ctx):
    st = ctx.stream('string-order', 'comparisons use the total value order, for TEXT: the six comparison operators (and + on the same operands) on '
                                    'pairs of strings drawn from every Unicode plane (ASCII incl. NUL/controls, Latin-1, 2-byte, BMP below and '
                                    'above the surrogate block, planes 1/2/14/16, lone surrogates) - (1) ALL ordered pairs of a pool of '
                                    'characters and character+prefix/suffix strings, (2) ALL ordered pairs among the spellings of each word '
                                    '(NFC/NFD/NFKC/NFKD, lower/upper/casefold/title, padded with space / BOM / ZWSP / NUL, one character longer '
                                    'or shorter), (3) random pairs with a common prefix or related by a normalisation / case mapping; each pair '
                                    'as two variables, two literals, with one prefix prepended to both, inside one-element / nested arrays and '
                                    'as the value or the KEY of one-member objects (all order-embedding), through execute_script and '
                                    'evaluate_expression: implementation vs reference (code point order) vs Lean machine (lone surrogates: '
                                    'reference only), plus the laws of a total order (trichotomy, operator consistency, equality = same '
                                    'characters, transitivity) over the whole matrix; non-trivial = the two strings differ')
    rng = ctx.rng('string-order')
    batch = Batch(ctx, 'string-order', st)
    # (1) the pool: every character alone, and behind / before a common character (the first difference is not at index 0 / the end matters)
    pool = list(UNI_CHARS) + ['']
    for i, c in enumerate(UNI_CHARS):
        if not ctx.quick or i % 12 == 0:
            pool += ['a' + c, c + 'a']
        if not ctx.quick and i % 2 == 0:
            pool += ['\U0001f600' + c, c + c, c + '\uffff']
    seen = []
    for w in pool:
        if w not in seen:
            seen.append(w)
    pool = seen
    n = len(pool)
    answers = [[None] * n for _ in range(n)]
    k = 0
    for i in range(n):
        for j in range(n):
            k += 1
            form = ORDER_FORMS[(i * 3 + j + (i * j) // 7) % len(ORDER_FORMS)]
            answers[i][j] = order_add(batch, form, 'exec' if k % 3 else 'eval', pool[i], pool[j], PREFIXES[(i + j) % len(PREFIXES)])
    batch.flush()
    order_laws(ctx, pool, answers)
    # (2) spellings of one word: canonically / compatibly / case-insensitively equal, yet different strings
    for wi, word in enumerate(UNI_WORDS):
        sp = spellings(word)
        if ctx.quick:
            sp = sp[:9]
        m = len(sp)
        ans = [[None] * m for _ in range(m)]
        for i in range(m):
            for j in range(m):
                k += 1
                form = ORDER_FORMS[(wi + i * 3 + j) % len(ORDER_FORMS)]
                ans[i][j] = order_add(batch, form, 'exec' if k % 3 else 'eval', sp[i], sp[j], PREFIXES[(i + j) % len(PREFIXES)])
        order_laws(ctx, sp, ans)
    batch.flush()
    # (3) random pairs
    for i in range(ctx.scale(2000, 60000)):
        s, t = random_pair(rng)
        order_add(batch, rng.choice(ORDER_FORMS), 'exec' if i % 3 else 'eval', s, t, rng.choice(PREFIXES))
    batch.flush()


# ---------------------------------------------------------------------------------------------------------------------
# stream value-order: the six comparison operators on values of EVERY type, nested, incl. values that a coarser notion of equality
# (the host language's ==, truthiness, the text, identity of the object) confuses
# ---------------------------------------------------------------------------------------------------------------------

def spec_kind(spec):
    if spec is None:
        return 'null'
    if isinstance(spec, bool):
        return 'boolean'
    if isinstance(spec, str):
        return 'string'
    if isinstance(spec, list):
        return 'array'
    return {'num': 'number', 'int': 'number', 'dt': 'datetime', 'date': 'datetime', 'dta': 'datetime', 'lib': 'function', 're': 'regex',
            'obj': 'object'}[next(iter(spec))]


def lang_key(spec):
    """The identity of a value IN THE LANGUAGE, from the property statement: the type and the value - a boolean is not a number, a number
    is its numeric value (0 = -0, no int/float distinction), a datetime is its instant (a date is its midnight, a zone is only a notation),
    an array is the sequence of its elements, an object the set of its members; functions / regexes have no order among themselves."""
    kind = spec_kind(spec)
    if kind in ('null', 'function', 'regex'):
        return (kind,)
    if kind in ('boolean', 'string'):
        return (kind, spec)
    if kind == 'number':
        return (kind, Fraction(build(spec)))
    if kind == 'datetime':
        return (kind, ref_norm_dt(build(spec)) - EPOCH)
    if kind == 'array':
        return (kind, tuple(lang_key(x) for x in spec))
    return (kind, tuple(sorted((k, lang_key(v)) for k, v in spec['obj'])))


DAY0 = [2024, 3, 1, 0, 0, 0, 0]
VAL_SCALARS = [
    None, False, True,
    fnum(0.0), fnum(-0.0), {'int': 0}, fnum(1.0), {'int': 1}, fnum(-1.0), fnum(0.5), fnum(2.0), {'int': 2}, fnum(1e15),
    '', '0', '1', 'true', 'false', 'null', 'a', '[]',
    {'dt': DAY0}, {'date': DAY0[:3]}, {'dta': DAY0 + [0]}, {'dta': DAY0 + [330]}, {'dt': [2024, 3, 1, 0, 0, 0, 1000]},
    {'dt': [2024, 2, 29, 23, 59, 59, 999000]}, {'date': [2024, 3, 2]},
    {'lib': 'systemType'}, {'lib': 'arrayNew'}, {'re': 'a+'}, {'re': 'b'},
]
VAL_COMPOUNDS = [
    [], [None], [False], [{'int': 0}], [fnum(0.0)], [True], [fnum(1.0)], ['1'], [[]], [[True]], [[fnum(1.0)]],
    [fnum(1.0), True], [True, fnum(1.0)], [fnum(1.0), fnum(1.0)], [True, True], [fnum(1.0), True, None], [{'date': DAY0[:3]}], [{'dt': DAY0}],
    {'obj': []}, {'obj': [['k', True]]}, {'obj': [['k', fnum(1.0)]]}, {'obj': [['k', [True]]]}, {'obj': [['k', [{'int': 1}]]]},
    {'obj': [['a', fnum(1.0)], ['b', fnum(2.0)]]}, {'obj': [['b', fnum(2.0)], ['a', fnum(1.0)]]}, {'obj': [['a', fnum(1.0)]]},
    {'obj': [['a', True], ['b', fnum(2.0)]]}, {'obj': [['0', None]]}, {'obj': [['', False]]},
    [{'obj': [['k', [True]]]}], [{'obj': [['k', [fnum(1.0)]]]}],
]
VAL_QUICK_SKIP = 3          # quick tier: the all-pairs matrix uses every scalar and 2 of 3 compounds (the random family draws from all)
OBJ_KEYS = ['k', 'a', 'b', '', '0', '1', 'true']
VAL_FORMS = ['arr', 'objv', 'arr2', 'deep', 'tail', 'objm', 'built']
TAIL_PREFIX = [True, fnum(1.0), 'a', [None, {'int': 0}]]


def embed(form, spec, side=0):
    """ORDER-EMBEDDING contexts: embed(x) ? embed(y) must answer exactly as x ? y (everything around the operand is equal on both sides)"""
    if form == 'var':
        return spec
    if form == 'arr':
        return [spec]
    if form == 'arr2':
        return ['k', [spec, None]]
    if form == 'deep':
        return [[[spec]], False]
    if form == 'tail':
        return TAIL_PREFIX + [spec]
    if form == 'objv':
        return {'obj': [['k', spec]]}
    if form == 'objm':                       # same members, inserted in a different order on the two sides
        members = [['a', fnum(1.0)], ['k', spec], ['z', [True]]]
        return {'obj': members if side == 0 else members[::-1]}
    raise ValueError(form)


def spec_expr(spec, gspecs):
    """an expression that BUILDS the value in the script (literals, arrayNew, objectNew); what has no literal is bound as a global"""
    if spec is None or isinstance(spec, bool):
        return var({None: 'null', True: 'true', False: 'false'}[spec])
    if isinstance(spec, str):
        return progen.string(spec)
    if isinstance(spec, list):
        return progen.call('arrayNew', *[spec_expr(x, gspecs) for x in spec])
    (k, v), = spec.items()
    if k == 'obj':
        return progen.call('objectNew', *[e for kk, vv in v for e in (progen.string(kk), spec_expr(vv, gspecs))])
    if k == 'num':
        f = float.fromhex(v)
        if math.isfinite(f) and not (f == 0 and math.copysign(1.0, f) < 0):
            return progen.num(Fraction(f))
    name = f'v{len(gspecs)}'
    gspecs[name] = spec
    return var(name)


def val_case(form, mode, x, y, ops=None, swap=False, same=False, both=False, tags=()):
    """arrayNew(L < R, L <= R, L > R, L >= R, L == R, L != R [, R < L, ... R != L]) - or the single comparison `ops` (of R ? L when `swap`)"""
    if form == 'built':
        gspecs = {}
        left, right = spec_expr(embed('arr', x), gspecs), spec_expr(embed('arr', y), gspecs)
    else:
        left, right = var('p'), var('q')
        gspecs = {'p': embed(form, x, 0), 'q': {'same': 'p'} if same else embed(form, y, 1)}
    if mode == 'eval':
        for fn in ('arrayNew', 'objectNew'):
            gspecs[fn] = {'lib': fn}
    if ops is not None:
        expr = progen.binop(ops, right, left) if swap else progen.binop(ops, left, right)
    else:
        items = [progen.binop(op, left, right) for op in REL_OPS]
        if both:
            items += [progen.binop(op, right, left) for op in REL_OPS]
        expr = progen.call('arrayNew', *items)
    return Case(mode, expr, gspecs, tags=list(tags))


def val_tags(x, y, same=False):
    kx, ky = spec_kind(x), spec_kind(y)
    tags = ['types:' + '|'.join(sorted([kx, ky]))]
    if same:
        return tags + ['rel:same-object']
    lang_equal = lang_key(x) == lang_key(y)
    try:
        py_equal = bool(build(x) == build(y))
    except Exception:  # pylint: disable=broad-except
        py_equal = False
    tags.append('rel:' + ('language-equal' if lang_equal else 'language-different') + '/' + ('host-equal' if py_equal else 'host-different'))
    if not lang_equal and ref_truthy(build(x)) == ref_truthy(build(y)) and kx != ky:
        tags.append('rel:other-type-same-truthiness')
    return tags


def answers_of(impl, n=6):
    res = impl.get('result')
    if isinstance(res, list) and len(res) >= n and all(isinstance(v, bool) for v in res[:n]):
        return res[:n]
    return None


def val_add(batch, form, mode, x, y, same=False, both=False, extra_tags=()):
    """One pair of values through implementation / reference / model; a failing pair is reported per OPERATOR. -> the implementation's answers"""
    tags = ['form:' + form, 'mode:' + mode] + val_tags(x, y, same) + list(extra_tags)
    case = val_case(form, mode, x, y, same=same, both=both, tags=tags)
    checked = check_case(case)
    if checked[2] and getattr(batch, 'order_failures', 0) >= ORDER_REPORT_CAP:
        tags.append('failure-not-reported(cap)')
        checked = (checked[0], checked[1], [], checked[3], checked[4])
        case.tags = tags
    elif checked[2]:
        batch.order_failures = getattr(batch, 'order_failures', 0) + 1
        reported = False
        for swap in ((False, True) if both else (False,)):
            for op in REL_OPS:
                single = val_case(form, mode, x, y, ops=op, swap=swap, same=same, tags=tags)
                for oracle, want, got in check_case(single)[2]:
                    batch.ctx.witness(oracle, single.input(), want, got)
                    reported = True
        if reported:
            checked = (checked[0], checked[1], [], checked[3], checked[4])
    flags = ['lib-built-operand'] if form == 'built' and mode == 'eval' else []       # the eval driver records objectNew instead of running it
    impl, _ = batch.add(case, nontrivial=lang_key(x) != lang_key(y) or same, checked=checked, extra_flags=flags,
                        key=[form, x, y, same])
    return answers_of(impl, 12 if both else 6)


def embedding_failure(form, mode, x, y):
    """reference-free: the answers for the operands inside an order-embedding context vs the answers for the bare operands"""
    out = []
    for f in ('var', form):
        case = val_case(f, mode, x, y)
        impl, _, _ = run_impl(mode, case.expr, build_env(case.gspecs))
        out.append(answers_of(impl))
    return None if out[0] is not None and out[0] == out[1] else {'bare': out[0], 'embedded': out[1]}


EMBEDDING_TEXT = ('arrays compare element by element and objects member by member with the SAME total value order: the six answers '
                  '[<, <=, >, >=, ==, !=] for the operands inside equal surroundings are the answers for the bare operands')


def pair_consistent(r, r2, equal):
    lt, le, gt, ge, eq, ne = r
    return (lt + eq + gt == 1 and le == (lt or eq) and ge == (gt or eq) and ne == (not eq) and lt == r2[2] and gt == r2[0]
            and eq == r2[4] and eq == equal)


def rand_value(rng, depth=0):
    r = rng.random()
    if depth >= 3 or r < 0.42:
        return rng.choice(VAL_SCALARS)
    if r < 0.5:
        return rng.choice(VAL_COMPOUNDS)
    if r < 0.8:
        return [rand_value(rng, depth + 1) for _ in range(rng.choice([0, 1, 1, 2, 2, 3]))]
    return {'obj': [[k, rand_value(rng, depth + 1)] for k in rng.sample(OBJ_KEYS, rng.choice([0, 1, 1, 2, 3]))]}


def twins(spec):
    """values that SOME coarser equivalence identifies with `spec` (host ==, hash, truthiness, text, JSON, container-of-one, insertion
    order, notation of an instant) - some equal to it in the language, most not - and its nearest neighbours in the order"""
    kind = spec_kind(spec)
    if kind == 'null':
        return [False, fnum(0.0), '', 'null', [], {'obj': []}, [None]]
    if kind == 'boolean':
        return ([{'int': 1}, fnum(1.0), 'true', [True], False, '1'] if spec else
                [{'int': 0}, fnum(0.0), fnum(-0.0), None, 'false', '', [], True, '0'])
    if kind == 'number':
        f = build(spec)
        out = [fnum(f), fnum(-float(f)), fnum(float(f) + 1), fnum(math.nextafter(float(f), math.inf)), [spec]]
        if float(f) == int(f) and abs(f) < 2 ** 53:
            out += [{'int': int(f)}, str(int(f))]
        if f == 0:
            out += [fnum(-0.0), fnum(0.0), {'int': 0}, False, None]
        if f == 1:
            out += [True]
        return out
    if kind == 'string':
        out = [spec + ' ', spec + '\x00', spec.upper(), spec[:-1], [spec]]
        out += {'true': [True], 'false': [False], 'null': [None], '0': [fnum(0.0), False], '1': [fnum(1.0), True], '': [None, False, []],
                '[]': [[]]}.get(spec, [])
        return out
    if kind == 'datetime':
        dtv = ref_norm_dt(build(spec))
        base = [dtv.year, dtv.month, dtv.day, dtv.hour, dtv.minute, dtv.second, dtv.microsecond]
        out = [{'dt': base}, {'dta': base + [0]}, {'dta': base + [-480]}, {'dta': base + [345]}]
        for delta in (datetime.timedelta(milliseconds=1), datetime.timedelta(milliseconds=-1), datetime.timedelta(days=1)):
            o = dtv + delta
            out.append({'dt': [o.year, o.month, o.day, o.hour, o.minute, o.second, o.microsecond]})
        if base[3:] == [0, 0, 0, 0]:
            out.append({'date': base[:3]})
        out += [fnum((dtv - EPOCH) / datetime.timedelta(milliseconds=1)), dtv.isoformat()]
        return out
    if kind == 'array':
        out = [spec + [None], spec[:-1], [spec], spec[::-1], {'obj': [[str(i), x] for i, x in enumerate(spec)]}, spec + spec[-1:]]
        if not spec:
            out += [None, '', {'obj': []}, False]
        return out
    if kind == 'object':
        kv = spec['obj']
        out = [{'obj': kv[::-1]}, {'obj': kv[:-1]}, {'obj': kv + [['z', None]]}, [v for _, v in kv], [[k, v] for k, v in kv]]
        if kv:
            out.append({'obj': [[kv[0][0] + '0', kv[0][1]]] + kv[1:]})
        else:
            out += [[], None]
        return out
    return [{'lib': 'systemBoolean'}, {'lib': 'systemType'}] if kind == 'function' else [{'re': 'a+'}, {'re': 'c'}, 'a+']


def spec_nodes(spec, path=()):
    yield path
    if isinstance(spec, list):
        for i, x in enumerate(spec):
            yield from spec_nodes(x, path + (i,))
    elif isinstance(spec, dict) and 'obj' in spec:
        for i, (_, v) in enumerate(spec['obj']):
            yield from spec_nodes(v, path + (i,))


def spec_at(spec, path):
    for i in path:
        spec = spec[i] if isinstance(spec, list) else spec['obj'][i][1]
    return spec


def spec_replace(spec, path, new):
    if not path:
        return new
    i = path[0]
    if isinstance(spec, list):
        return spec[:i] + [spec_replace(spec[i], path[1:], new)] + spec[i + 1:]
    kv = spec['obj']
    return {'obj': kv[:i] + [[kv[i][0], spec_replace(kv[i][1], path[1:], new)]] + kv[i + 1:]}


def mutate(rng, spec):
    """one node (mostly a leaf) replaced by one of its twins"""
    paths = list(spec_nodes(spec))
    leaves = [p for p in paths if spec_kind(spec_at(spec, p)) not in ('array', 'object')]
    path = rng.choice(leaves if leaves and rng.random() < 0.75 else paths)
    node = spec_at(spec, path)
    new = rng.choice(twins(node)) if rng.random() < 0.9 else rng.choice(VAL_SCALARS)
    return spec_replace(spec, path, new)


def random_value_pair(rng):
    """-> (x, y, relation, same object?)"""
    x = rand_value(rng)
    r = rng.random()
    if r < 0.08:
        return x, x, 'same-object', True
    if r < 0.16:
        return x, json.loads(json.dumps(x)), 'copy', False
    if r < 0.62:
        return x, mutate(rng, x), 'twin', False
    if r < 0.80:
        return mutate(rng, x), mutate(rng, x), 'twin-both', False
    return x, rand_value(rng), 'independent', False


def stream_value_order(ctx):
    st = ctx.stream('value-order', 'comparisons use the total value order, for EVERY type and for nested values: the six comparison operators on '
                                   '(1) ALL ordered pairs of a pool of values - null, both booleans, numbers (0.0 / -0.0 / int 0, 1.0 / int 1, ...), '
                                   "strings that read like other values ('', '0', '1', 'true', 'null', '[]'), datetimes (the same instant as "
                                   'datetime / date / aware datetime in two zones, one millisecond earlier / later), functions, regexes, and arrays / '
                                   'objects whose members differ only in such twins (a boolean where the other has the number 1/0, int vs float, '
                                   'date vs datetime, members inserted in another order) - each pair as bare variables AND inside an '
                                   'order-embedding context (one-element / nested / common-prefix arrays, one- and three-member objects, arrays '
                                   'built in the script by arrayNew/objectNew); (2) random nested values (depth <= 3) against the same object, a copy, '
                                   'a twin mutation of one node (what the host ==, the hash, truthiness, the text, JSON, the insertion order or the '
                                   'notation of an instant confuse) or an independent value, both operand orders; through execute_script and '
                                   'evaluate_expression: implementation vs reference order vs Lean machine (aware datetimes / regexes: reference only), '
                                   'plus reference-free oracles: the total-order laws (trichotomy, operator consistency, equality = same value of '
                                   'the language, transitivity) over the matrix and ORDER-EMBEDDING (the answers inside equal surroundings are the '
                                   'answers for the bare operands); non-trivial = the two values differ in the language, or are one object')
    rng = ctx.rng('value-order')
    batch = Batch(ctx, 'value-order', st)
    # (1) the pool, all ordered pairs: bare (for the laws) and embedded (rotating through the contexts)
    pool = list(VAL_SCALARS) + [c for i, c in enumerate(VAL_COMPOUNDS) if not ctx.quick or i % VAL_QUICK_SKIP]
    n = len(pool)
    keys = [lang_key(x) for x in pool]
    answers = [[None] * n for _ in range(n)]
    k = 0
    embed_reports = 0
    for i in range(n):
        for j in range(n):
            k += 1
            mode = 'exec' if k % 3 else 'eval'
            answers[i][j] = val_add(batch, 'var', mode, pool[i], pool[j])
            forms = [VAL_FORMS[(i * 3 + j + (i * j) // 5) % len(VAL_FORMS)]] if ctx.quick else VAL_FORMS
            for form in forms:
                emb = val_add(batch, form, mode, pool[i], pool[j])
                if emb != answers[i][j] and embed_reports < ORDER_REPORT_CAP:
                    got = embedding_failure(form, mode, pool[i], pool[j])
                    if got is not None:
                        embed_reports += 1
                        ctx.witness('order-embedding', {'form': form, 'mode': mode, 'x': pool[i], 'y': pool[j],
                                                        'text': text_of(val_case(form, mode, pool[i], pool[j]).expr),
                                                        'globals': val_case(form, mode, pool[i], pool[j]).gspecs}, EMBEDDING_TEXT, got)
        batch.flush()
    order_laws(ctx, pool, answers)
    del keys
    # (2) random nested values and their twins, both operand orders in one evaluation
    law_reports = 0
    for i in range(ctx.scale(3000, 60000)):
        x, y, rel, same = random_value_pair(rng)
        form = rng.choice(['var', 'var', 'var'] + VAL_FORMS) if not same else 'var'
        mode = 'exec' if i % 3 else 'eval'
        r = val_add(batch, form, mode, x, y, same=same, both=True, extra_tags=['pair:' + rel])
        if r is not None and not pair_consistent(r[:6], r[6:], same or lang_key(x) == lang_key(y)) and law_reports < 10 and not same:
            ex, ey = embed(form if form != 'built' else 'arr', x, 0), embed(form if form != 'built' else 'arr', y, 1)
            got = law_failure('operators-consistent', [ex, ey])
            if got is not None:
                law_reports += 1
                ctx.witness('total-order-laws', {'law': 'operators-consistent', 'strings': [ex, ey]}, LAW_TEXT['operators-consistent'], got)
        if i % 500 == 499:
            batch.flush()
    batch.flush()


# ---------------------------------------------------------------------------------------------------------------------
# stream datetime-arith: datetime - datetime is the difference in milliseconds, datetime + number offsets by milliseconds
# ---------------------------------------------------------------------------------------------------------------------

DT_LAWS = [
    ('difference-is-whole-milliseconds', '(a - b) % 1 == 0'),
    ('difference-antisymmetric', 'a - b == 0 - (b - a)'),
    ('self-difference-is-zero', 'a - a == 0'),
    ('add-the-difference-back', 'b + (a - b) == a'),
    ('offset-then-difference', '(a + n) - a == n'),
    ('difference-additive', '(a - b) + (b - c) == a - c'),
    ('sign-agrees-with-order', '(a < b) == (a - b < 0) && (a == b) == (a - b == 0) && (a > b) == (a - b > 0)'),
    ('offset-commutes', 'n + a == a + n'),
    ('offsets-compose', '(a + n) + m == a + (n + m)'),
    ('offset-monotone', '(a + n < a + m) == (n < m) && (a + n == a + m) == (n == m)'),
    ('difference-of-offsets', '(a + n) - (b + m) == (a - b) + (n - m)'),
]
DT_LAW_TEXT = ('- on two datetimes is their difference in (whole) milliseconds and + offsets a datetime by milliseconds: for datetimes '
               'a, b, c of millisecond resolution and whole numbers n, m (all results in range) the law evaluates to true')
DT_BASES = [[1970, 1, 1, 0, 0, 0, 0], [2024, 1, 6, 12, 30, 0, 0], [1999, 12, 31, 23, 59, 59, 999000], [2000, 2, 29, 0, 0, 0, 1000],
            [2038, 1, 19, 3, 14, 7, 0], [1900, 3, 1, 6, 0, 0, 500000], [1582, 10, 15, 0, 0, 0, 0], [2262, 4, 11, 23, 47, 16, 854000],
            [1969, 12, 31, 23, 59, 59, 999000], [2024, 2, 29, 12, 30, 15, 250000]]
DT_SECONDS = [0, 1, 2, 7, 59, 60, 3599, 86399, 86400, 1000000, 31536000]
DT_OFFSETS = [0, 1, -1, 999, 1000, 1001, -1001, 59999, 86400000, -86400000, 1234567, 31536000000]


def dt_spec(dtv):
    return {'dt': [dtv.year, dtv.month, dtv.day, dtv.hour, dtv.minute, dtv.second, dtv.microsecond]}


def dt_new_expr(spec, alias):
    """the datetime built in the script: datetimeNew(year, month, day, hour, minute, second, millisecond) / the built-in date(...)"""
    v = spec['dt']
    return progen.call('date' if alias else 'datetimeNew', *[progen.num(x) for x in v[:6] + [v[6] // 1000]])


_DT_LAW_EXPRS = {}


def dt_law_exprs():
    key = id(fw.impl()['parser'])
    if key not in _DT_LAW_EXPRS:
        parser = fw.impl()['parser']
        _DT_LAW_EXPRS[key] = [(name, progen.canon_expr(parser.parse_expression(text))) for name, text in DT_LAWS]
    return _DT_LAW_EXPRS[key]


def subst(e, binding):
    """replace variables by expressions"""
    (k, v), = e.items()
    if k == 'variable':
        return binding.get(v, e)
    if k == 'group':
        return {'group': subst(v, binding)}
    if k == 'unary':
        return {'unary': {'op': v['op'], 'expr': subst(v['expr'], binding)}}
    if k == 'binary':
        return {'binary': {'op': v['op'], 'left': subst(v['left'], binding), 'right': subst(v['right'], binding)}}
    if k == 'function':
        return {'function': {'name': v['name'], 'args': [subst(a, binding) for a in v['args']]}}
    return e


def dt_case(form, vals, law=None, tags=()):
    """vals: specs of a, b, c (datetimes), n, m (numbers).  form: host (all variables, execute_script) / host-eval (evaluate_expression) /
    built (a, b, c built by datetimeNew in the script) / alias (by the built-in date() in expression mode).
    The expression: arrayNew(a - b, b - a, a + n, m + b, <every law>) - or one law."""
    gspecs = dict(vals)
    binding = {}
    mode, builtins = ('exec', False) if form in ('host', 'built') else ('eval', form == 'alias')
    if form in ('built', 'alias'):
        for name in 'abc':
            binding[name] = dt_new_expr(gspecs.pop(name), form == 'alias')
    laws = dt_law_exprs()
    if law is not None:
        expr = subst(dict(laws)[law], binding)
        gspecs = {k: v for k, v in gspecs.items() if k in expr_vars(expr)}
    else:
        probes = [progen.binop('-', var('a'), var('b')), progen.binop('-', var('b'), var('a')), progen.binop('+', var('a'), var('n')),
                  progen.binop('+', var('m'), var('b'))]
        expr = progen.call('arrayNew', *[subst(e, binding) for e in probes + [e for _, e in laws]])
        if mode == 'eval':
            gspecs['arrayNew'] = {'lib': 'arrayNew'}
    return Case(mode, expr, gspecs, builtins=builtins, tags=list(tags))


def dt_law_holds(form, vals, law):
    case = dt_case(form, vals, law)
    impl, res, _ = run_impl(case.mode, case.expr, build_env(case.gspecs), None, case.builtins)
    return res is True, {k: impl[k] for k in impl if k != 'log'}


def dt_add(batch, form, vals, tags, state):
    case = dt_case(form, vals, tags=['form:' + form] + tags)
    checked = check_case(case)
    impl = checked[0]
    res = impl.get('result')
    nlaws = len(DT_LAWS)
    if checked[2] and state['reports'] < ORDER_REPORT_CAP:
        # the smallest failing expressions: the four probes one by one
        state['reports'] += 1
        reported = False
        for op, l, r in (('-', 'a', 'b'), ('-', 'b', 'a'), ('+', 'a', 'n'), ('+', 'm', 'b')):
            single = Case('eval', progen.binop(op, var(l), var(r)), {k: vals[k] for k in (l, r)}, tags=case.tags)
            if form in ('host', 'host-eval'):
                for oracle, want, got in check_case(single)[2]:
                    batch.ctx.witness(oracle, single.input(), want, got)
                    reported = True
        if reported:
            checked = (checked[0], checked[1], [], checked[3], checked[4])
    elif checked[2]:
        checked = (checked[0], checked[1], [], checked[3], checked[4])
    if isinstance(res, list) and len(res) == 4 + nlaws and state['law_reports'] < ORDER_REPORT_CAP:
        for (name, _), ok in zip(DT_LAWS, res[4:]):
            if ok is not True:
                holds, got = dt_law_holds(form, vals, name)
                if not holds:
                    state['law_reports'] += 1
                    single = dt_case(form, vals, name)
                    inp = single.input()
                    inp.update({'law': name, 'form': form, 'values': vals})
                    batch.ctx.witness('datetime-arithmetic-laws', inp, DT_LAW_TEXT, got)
    flags = ['lib-built-datetime'] if form in ('built', 'alias') else []
    batch.add(case, checked=checked, extra_flags=flags, key=[form, sorted(vals.items(), key=lambda kv: kv[0])],
              nontrivial=vals['a'] != vals['b'])


def nearest_ms_failure(a, b):
    """a - b for datetimes of MICROSECOND resolution: a whole number of milliseconds nearest to the exact difference (either one at a tie)"""
    case = Case('eval', progen.binop('-', var('a'), var('b')), {'a': a, 'b': b})
    env = build_env(case.gspecs)
    impl, res, _ = run_impl('eval', case.expr, env)
    exact = Fraction((ref_norm_dt(env['a']) - ref_norm_dt(env['b'])) // datetime.timedelta(microseconds=1), 1000)
    ok = (isinstance(res, (int, float)) and not isinstance(res, bool) and math.isfinite(res) and Fraction(res).denominator == 1
          and abs(Fraction(res) - exact) <= Fraction(1, 2))
    return case, (None if ok else {k: impl[k] for k in impl if k != 'log'}), exact


def dt_tuple(rng, base, seconds, residue):
    """a = base + seconds + residue ms;  b = base;  c, n, m random (everything stays well inside year 1 .. 9999)"""
    bdt = datetime.datetime(*base)
    a = bdt + datetime.timedelta(seconds=seconds, milliseconds=residue)
    c = bdt + datetime.timedelta(milliseconds=rng.choice([0, 1, -1, rng.randint(-10 ** 6, 10 ** 6), rng.randint(-10 ** 12, 10 ** 12)]))
    pick = lambda: rng.choice(DT_OFFSETS) if rng.random() < 0.5 else rng.randint(-10 ** rng.randint(1, 12), 10 ** rng.randint(1, 12))
    n, m = pick(), pick()
    num = lambda x: {'int': x} if rng.random() < 0.3 else fnum(float(x))
    vals = {'a': dt_spec(a), 'b': dt_spec(bdt), 'c': dt_spec(c), 'n': num(n), 'm': num(m)}
    if rng.random() < 0.5:
        vals['a'], vals['b'] = vals['b'], vals['a']
    return vals


def stream_datetime_arith(ctx):
    st = ctx.stream('datetime-arith', '+ offsets datetimes by milliseconds, - on two datetimes is their difference in milliseconds: a - b, b - a, '
                                      'a + n, m + b and eleven arithmetic laws (the difference is a whole number, antisymmetric, additive, a - a = 0, '
                                      'b + (a - b) = a, (a + n) - a = n, n + a = a + n, offsets compose and are monotone, the sign of a - b is '
                                      'the order of a and b) in ONE evaluation, for (1) a sweep of EVERY millisecond residue 0..999 on top of '
                                      'second counts 0 .. a year and ten base instants (epoch, before the epoch, year ends, leap days, 1582, 2262), '
                                      '(2) random instants centuries apart with random whole offsets (int and float), (3) date operands and aware '
                                      'datetimes (reference only), (4) datetimes of microsecond resolution (nearest whole millisecond, either at a '
                                      'tie); operands supplied by the host or built in the script by datetimeNew / the built-in date(), through '
                                      'execute_script and evaluate_expression: implementation vs reference (exact integer microseconds) vs Lean '
                                      'machine, and the laws as reference-free oracles; non-trivial = a and b differ')
    rng = ctx.rng('datetime-arith')
    batch = Batch(ctx, 'datetime-arith', st)
    state = {'reports': 0, 'law_reports': 0}
    forms = ['host', 'host', 'host-eval', 'built', 'host', 'alias']
    k = 0
    # (1) every millisecond residue
    for rep in range(ctx.scale(1, 12)):
        for residue in range(1000):
            k += 1
            base = DT_BASES[(residue + rep) % len(DT_BASES)] if rep else rng.choice(DT_BASES)
            seconds = rng.choice(DT_SECONDS) if rng.random() < 0.8 else rng.randint(0, 3 * 10 ** 9)
            dt_add(batch, forms[k % len(forms)], dt_tuple(rng, base, seconds, residue), ['family:residue-sweep', f'residue:{residue // 100}xx'], state)
        batch.flush()
    # (2) random instants
    for i in range(ctx.scale(800, 20000)):
        k += 1
        base = [rng.randint(1000, 8999), rng.randint(1, 12), rng.randint(1, 28), rng.randint(0, 23), rng.randint(0, 59), rng.randint(0, 59),
                rng.randint(0, 999) * 1000]
        seconds = rng.randint(0, 10 ** rng.randint(0, 10))
        dt_add(batch, forms[k % len(forms)], dt_tuple(rng, base, seconds, rng.randint(0, 999)), ['family:random-instants'], state)
    batch.flush()
    # (3) dates and aware datetimes as operands (host supplied)
    for i in range(ctx.scale(200, 3000)):
        vals = dt_tuple(rng, rng.choice(DT_BASES), rng.choice(DT_SECONDS), rng.randint(0, 999))
        for name in rng.sample('abc', rng.randint(1, 2)):
            v = vals[name]['dt']
            vals[name] = {'date': v[:3]} if rng.random() < 0.5 else {'dta': v + [rng.choice([0, 60, -300, 330, 765])]}
        dt_add(batch, 'host' if i % 2 else 'host-eval', vals, ['family:date-and-aware'], state)
    batch.flush()
    # (4) microsecond resolution: the nearest whole millisecond
    reports = 0
    for i in range(ctx.scale(400, 6000)):
        base = datetime.datetime(*rng.choice(DT_BASES))
        us = rng.choice([500, 499, 501, 1, 999, 1500, 250]) if rng.random() < 0.5 else rng.randint(0, 999999)
        a = base + datetime.timedelta(seconds=rng.choice(DT_SECONDS), microseconds=us + 1000 * rng.randint(0, 999))
        b = base + datetime.timedelta(microseconds=rng.choice([0, 0, 300, 500]))
        pair = (dt_spec(a), dt_spec(b)) if rng.random() < 0.5 else (dt_spec(b), dt_spec(a))
        case, got, exact = nearest_ms_failure(*pair)
        if got is not None and reports < 10:
            reports += 1
            ctx.witness('datetime-difference-nearest-ms', case.input(), f'a whole number within 1/2 of {exact} milliseconds', got)
        st.case(['nearest-ms', pair], nontrivial=True, tags=['family:microseconds', 'tie' if exact.denominator == 2 else 'no-tie', 'reference-only'])


# ---------------------------------------------------------------------------------------------------------------------
# stream host-values: numbers / strings / arrays / objects / datetimes supplied by the HOST as instances of subclasses of the Python types
# ---------------------------------------------------------------------------------------------------------------------

def sub(kind, base):
    return {'sub': [kind, base]}


SUB_VALUES = [
    sub('int-sub', {'int': 3}), sub('int-enum', {'int': 0}), sub('int-enum', {'int': 3}), sub('int-enum', {'int': -2}),
    sub('http-status', {'int': 200}),
    sub('float-sub', fnum(0.5)), sub('float-sub', fnum(-3.75)), sub('float-sub', fnum(0.0)), sub('float-sub', fnum(7.0)),
    sub('str-sub', 'abc'), sub('str-sub', ''), sub('str-enum', '5'),
    sub('list-sub', [fnum(1.0), 'x']), sub('list-sub', []), [sub('int-enum', {'int': 1}), sub('float-sub', fnum(2.5))],
    sub('dict-sub', {'obj': [['k', fnum(1.0)]]}), sub('ordered-dict', {'obj': [['k', fnum(1.0)], ['b', 'v']]}),
    sub('default-dict', {'obj': []}), {'obj': [['k', sub('http-status', {'int': 404})]]},
    sub('dt-sub', {'dt': [2024, 2, 29, 12, 30, 15, 250000]}), sub('date-sub', {'date': [2024, 3, 1]}),
]
# pool name -> host variants carrying the same language value
SUB_VARIANTS = {
    'n0': [sub('int-enum', {'int': 0}), sub('int-sub', {'int': 0}), sub('float-sub', fnum(0.0))],
    'n1': [sub('int-enum', {'int': 1}), sub('int-sub', {'int': 1}), sub('float-sub', fnum(1.0))],
    'nm': [sub('int-enum', {'int': -2}), sub('float-sub', fnum(-2.0))],
    'nh': [sub('float-sub', fnum(0.5))],
    'nq': [sub('float-sub', fnum(-3.75))],
    'n7': [sub('int-enum', {'int': 7}), sub('float-sub', fnum(7.0)), sub('int-sub', {'int': 7})],
    'i3': [sub('int-sub', {'int': 3}), sub('int-enum', {'int': 3})],
    'i0': [sub('int-enum', {'int': 0})],
    'ne': [sub('float-sub', fnum(1e15)), sub('int-sub', {'int': 10 ** 15})],
    'se': [sub('str-sub', ''), sub('str-enum', '')],
    'sa': [sub('str-sub', 'abc'), sub('str-enum', 'abc')],
    's5': [sub('str-sub', '5'), sub('str-enum', '5')],
    'sn': [sub('str-sub', 'null')],
    'sq': [sub('str-sub', 'a"b\xe9')],
    'su': [sub('str-enum', 'Ａ\U0001f600')],
    'd1': [sub('dt-sub', {'dt': [2024, 2, 29, 12, 30, 15, 250000]})],
    'd0': [sub('dt-sub', {'dt': [1970, 1, 1, 0, 0, 0, 0]})],
    'dd': [sub('date-sub', {'date': [2024, 3, 1]})],
    'ae': [sub('list-sub', [])],
    'a1': [sub('list-sub', [fnum(1.0), 'x"\xe9', None]), [sub('float-sub', fnum(1.0)), sub('str-sub', 'x"\xe9'), None]],
    'a2': [sub('list-sub', [[fnum(1.0)], sub('list-sub', [fnum(2.5), True])])],
    'oe': [sub('dict-sub', {'obj': []}), sub('ordered-dict', {'obj': []}), sub('default-dict', {'obj': []})],
    'o1': [sub('ordered-dict', {'obj': [['k', fnum(1.0)], ['b', 'v']]}), sub('dict-sub', {'obj': [['k', sub('int-enum', {'int': 1})], ['b', 'v']]})],
}
SUBCLASS_ORACLE = 'host-subclass-value-is-its-base-value'
SUBCLASS_TEXT = ('a host value whose Python type is a subclass of int / float / str / list / dict / datetime IS the language value it carries: '
                 'the outcome equals the outcome with the plain value')


def sub_kind(spec):
    return spec['sub'][0] if isinstance(spec, dict) and 'sub' in spec else 'nested'


def plain_case(case):
    return Case(case.mode, case.expr, {k: plain_spec(v) for k, v in case.gspecs.items()},
                {k: plain_spec(v) for k, v in case.lspecs.items()} if case.lspecs is not None else None, case.builtins, optform=case.optform)


def plain_failure(case, impl=None):
    """reference-free: the implementation on the host values vs the implementation on the plain values -> (expected, actual) or None"""
    if impl is None:
        impl, _, _ = run_impl(case.mode, case.expr, build_env(case.gspecs), build_env(case.lspecs) if case.lspecs is not None else None,
                              case.builtins, case.optform)
    pc = plain_case(case)
    want, _, _ = run_impl(pc.mode, pc.expr, build_env(pc.gspecs), build_env(pc.lspecs) if pc.lspecs is not None else None, pc.builtins,
                          pc.optform)
    return None if impl == want else (want, impl)


def host_value_add(batch, case, items, state, nontrivial=True, key=None):
    """One case through reference / plain-value equivalence / model.  `items`: the operator expressions of a composite case - a failing
    composite is reported item by item (the smallest failing expressions)."""
    checked = check_case(case)
    pf = plain_failure(case, checked[0])
    if checked[2] or pf is not None:
        if state['reports'] < ORDER_REPORT_CAP:
            state['reports'] += 1
            reported = False
            for item in items or []:
                single = Case(case.mode, item, {k: v for k, v in case.gspecs.items() if k in expr_vars(item)},
                              ({k: v for k, v in case.lspecs.items() if k in expr_vars(item)} if case.lspecs is not None else None),
                              case.builtins, tags=case.tags, optform=case.optform)
                one = check_case(single)
                for oracle, want, got in one[2]:
                    batch.ctx.witness(oracle, single.input(), want, got)
                    reported = True
                spf = plain_failure(single, one[0])
                if spf is not None:
                    batch.ctx.witness(SUBCLASS_ORACLE, single.input(), spf[0], spf[1])
                    reported = True
            if not reported:
                for oracle, want, got in checked[2]:
                    batch.ctx.witness(oracle, case.input(), want, got)
                if pf is not None:
                    batch.ctx.witness(SUBCLASS_ORACLE, case.input(), pf[0], pf[1])
        checked = (checked[0], checked[1], [], checked[3], checked[4])
    return batch.add(case, checked=checked, nontrivial=nontrivial, key=key)


def operator_items(left, right):
    return [progen.binop(op, left, right) for op in OPS] + [progen.unop('-', left), progen.unop('!', left), progen.unop('-', right)]


def stream_host_values(ctx):
    st = ctx.stream('host-values', 'HOST-BOUNDARY values: numbers, strings, arrays, objects and datetimes supplied in globals / locals as instances of '
                                   'SUBCLASSES of the Python types (int subclass, enum.IntEnum member, http.HTTPStatus, float subclass, str subclass, '
                                   '(str, Enum) member, list / dict subclasses, OrderedDict, defaultdict, datetime / date subclasses; also nested inside '
                                   'plain arrays / objects): (1) ALL 14 binary operators and both unary operators, in one arrayNew(...), for every host '
                                   'value x every partner (pool values of all 9 types and the other host values), in both operand positions, '
                                   'through execute_script and evaluate_expression; (2) random expression trees to depth 6 over the value pool with a '
                                   'random subset of the names rebound (globals or locals) to host variants of the same language value. Oracles: the '
                                   'reference evaluator (typed operator table), the Lean machine on the carried values, and reference-free: the outcome '
                                   'equals the outcome with the plain values; non-trivial = every case (distinct operands / trees)')
    rng = ctx.rng('host-values')
    batch = Batch(ctx, 'host-values', st)
    state = {'reports': 0}
    partners = [(n, s) for n, _, s in POOL if n != 'tr' and (not ctx.quick or n in QUICK_NAMES)]
    partners += [(f'host{i}', s) for i, s in enumerate(SUB_VALUES)]
    k = 0
    for si, sv in enumerate(SUB_VALUES):
        for pn, ps in partners:
            for swap in (False, True):
                k += 1
                mode = 'exec' if k % 2 else 'eval'
                gspecs = {'x': ps, 'y': sv} if swap else {'x': sv, 'y': ps}
                items = operator_items(var('x'), var('y'))
                if mode == 'eval':
                    gspecs['arrayNew'] = {'lib': 'arrayNew'}
                lspecs = None
                if mode == 'eval' and k % 3 == 0:                           # the host value as a LOCAL
                    name = 'x' if not swap else 'y'
                    lspecs = {name: gspecs.pop(name)}
                case = Case(mode, progen.call('arrayNew', *items), gspecs, lspecs, builtins=(k % 4 == 0),
                            tags=['family:operators', 'host:' + sub_kind(sv), 'partner:' + (POOL_TYPE.get(pn) or 'host:' + sub_kind(ps)),
                                  'position:' + ('right' if swap else 'left'), 'mode:' + mode + ('+locals' if lspecs else '')])
                host_value_add(batch, case, items, state, key=[si, pn, swap])
        batch.flush()
    names = [n for n, _, _ in POOL if n not in ('tr', 'rx')]
    for i in range(ctx.scale(2000, 30000)):
        gen = TreeGen(rng, names + ['tr'], rng.choice([2, 3, 4, 5, 6, 6]))
        expr = gen.tree()
        gspecs = pool_specs()
        used = sorted(n for n in expr_vars(expr) if n in SUB_VARIANTS)
        chosen = [n for n in used if rng.random() < 0.7] or used[:1]
        if not chosen:
            chosen = [rng.choice(sorted(SUB_VARIANTS))]
            expr = progen.wf_binary(rng.choice(ARITH), expr if 'binary' not in expr else progen.group(expr), var(chosen[0]))
        for n in chosen:
            gspecs[n] = rng.choice(SUB_VARIANTS[n])
        tags = ['family:trees', f'depth{min(expr_depth(expr), 9)}'] + ['host:' + sub_kind(gspecs[n]) for n in chosen]
        if i % 5 < 3:
            case = Case('exec', expr, gspecs, tags=tags + ['mode:exec'])
        else:
            for fn in LIB_IN_TREES + ['systemLog']:
                gspecs[fn] = {'lib': fn}
            lspecs = None
            if rng.random() < 0.6:
                lspecs = {n: gspecs.pop(n) for n in chosen if rng.random() < 0.6}
            case = Case('eval', expr, gspecs, lspecs, builtins=rng.random() < 0.5, tags=tags + ['mode:eval' + ('+locals' if lspecs else '')])
        host_value_add(batch, case, None, state, nontrivial=expr_depth(expr) >= 2)
        if i % 500 == 499:
            batch.flush()
    batch.flush()


# ---------------------------------------------------------------------------------------------------------------------
# stream host-calls: host-supplied callables (every way of declaring one) that do part of their work and then fail
# ---------------------------------------------------------------------------------------------------------------------

HOST_NAMES = ['hf0', 'hf1', 'hf2', 'hf3']
BODY_WEIGHTS = ['first', 'add1', 'add1', 'len', 'len', 'index', 'neg', 'join', 'sum', 'count', 'count', 'queue', 'queue', 'raise', 'raise',
                'raise-first', 'raise-first', 'raise-on-type', 'raise-on-type', 'raise-on-type', 'args-error', 'runtime-error', 'ret', 'global']
QUEUE_ITEMS = [None, {'int': 5}, fnum(2.5), 'ab', {'int': 7}, None]
RET_VALUES = [None, fnum(2.0), 'r', [], True] + SUB_VALUES


def host_fn_spec(rng, name, sig=None, body=None):
    spec = {'name': name, 'sig': sig or rng.choice(HOST_SIGS), 'body': body or rng.choice(BODY_WEIGHTS)}
    body = spec['body']
    if body in ('raise', 'raise-first', 'raise-on-type'):
        spec['exc'] = rng.choice(sorted(HOST_EXC)) if rng.random() < 0.6 else 'TypeError'
    if body == 'raise-on-type':
        spec['data'] = rng.choice(['string', 'null', 'number', 'array', 'boolean', 'datetime'])
    elif body == 'args-error':
        spec['data'] = rng.choice([None, fnum(-1.0), 'bad', []])
    elif body == 'ret':
        spec['data'] = rng.choice(RET_VALUES)
    elif body == 'global':
        spec['data'] = rng.choice(['n7', 'sa', 'zz', 'a1'])
    elif body == 'queue':
        spec['queue'] = [rng.choice(QUEUE_ITEMS) for _ in range(rng.randint(0, 4))]
    return {'hostfn': spec}


class HostTreeGen(TreeGen):
    """random trees in which ~1/3 of the inner nodes are calls of host functions (0-3 argument expressions)"""

    def __init__(self, rng, names, maxdepth, hostnames, trace=True, rate=0.3):
        super().__init__(rng, names, maxdepth, trace=trace)
        self.hostnames, self.rate = hostnames, rate

    def tree(self, depth=1):
        rng = self.rng
        if depth < self.maxdepth and rng.random() < self.rate:
            fn = rng.choice(self.hostnames)
            e = progen.call(fn, *[self.tree(depth + 1) for _ in range(rng.choice([1, 1, 1, 2, 2, 0, 3]))])
            self.kinds.add('call-host')
            if rng.random() < 0.15 and self.trace:
                self.tag += 1
                e = traced(f't{self.tag}', e)
            return e
        return super().tree(depth)


def fails_to_witnesses(ctx, case, fails):
    inp = None
    for oracle, want, got in fails:
        inp = inp or case.input()
        ctx.witness(oracle, inp, want, got)


# (what the function does, an argument on which it fails part-way, an argument on which it succeeds)
def host_behaviours():
    out = [({'body': 'add1'}, progen.string('a'), progen.num(41)), ({'body': 'add1'}, var('null'), progen.num(1)),
           ({'body': 'len'}, progen.num(5), progen.string('abc')), ({'body': 'neg'}, progen.string('s'), progen.num(2)),
           ({'body': 'join'}, progen.num(1), var('ae')), ({'body': 'sum'}, progen.string('s'), progen.num(3)),
           ({'body': 'index'}, var('a1'), progen.string('abc'))]
    for exc in sorted(HOST_EXC):
        out.append(({'body': 'raise-on-type', 'exc': exc, 'data': 'string'}, progen.string('a'), progen.num(1)))
    for exc in ('TypeError', 'ValueError', 'KeyError', 'HostTypeError'):
        out.append(({'body': 'raise-first', 'exc': exc}, progen.num(9), progen.num(9)))
    out += [({'body': 'queue', 'queue': [None, {'int': 5}, {'int': 7}]}, progen.num(2), progen.num(2)),
            ({'body': 'queue', 'queue': []}, progen.num(2), progen.num(2)),
            ({'body': 'args-error', 'data': fnum(-1.0)}, progen.string('a'), progen.num(1)),
            ({'body': 'runtime-error'}, progen.string('a'), progen.num(1)),
            ({'body': 'count'}, progen.string('a'), progen.num(1)),
            ({'body': 'global', 'data': 'n7'}, progen.string('a'), progen.num(1)),
            ({'body': 'ret', 'data': sub('int-enum', {'int': 3})}, progen.string('a'), progen.num(1))]
    return out


def host_templates(fail, ok):
    hf = lambda *a: progen.call('hf0', *a)
    return [
        ('single', hf(fail)),
        ('sum', progen.binop('+', progen.binop('+', hf(ok), progen.group(progen.binop('||', hf(fail), hf(progen.num(10))))), hf(progen.num(100)))),
        ('if', progen.call('if', var('true'), hf(fail), hf(ok))),
        ('and', progen.binop('&&', progen.binop('==', hf(fail), var('null')), hf(ok))),
    ]


# ---- histories: several evaluations on the SAME options / globals / host function objects ---------------------------------

HISTORY_ORACLE = 'host-call-history'
HISTORY_TEXT = ('every step evaluates to the value the language defines (a failed call is null, an undefined function is an error of that step '
                'only), with every host function invoked exactly once per call expression on the evaluated path, in order, whatever happened in '
                'earlier steps')


def run_history(inp):
    """inp: {'mode', 'seq': [expr], 'globals', 'locals'?, 'builtins'?} -> (expected, actual) of implementation vs reference"""
    mods = fw.impl()
    runtime, lib = mods['runtime'], mods['library'].SCRIPT_FUNCTIONS
    mode, exprs, builtins = inp['mode'], inp['seq'], inp.get('builtins', False)
    lspecs = inp.get('locals')
    sides = []
    for side in ('impl', 'ref'):
        rec = []
        env = build_env(inp['globals'], rec)
        loc = build_env(lspecs, rec) if lspecs is not None else None
        out = {}
        if side == 'impl':
            models = {}
            for e in exprs:
                models.setdefault(json.dumps(e, sort_keys=True), progen.impl_expr(e))
            imodel = lambda e: models[json.dumps(e, sort_keys=True)]             # pylint: disable=unnecessary-lambda-assignment
            log = []
            g = dict(env)
            options = make_options('full', g, log)
            if mode == 'exec':
                stmts = TR_STATEMENTS + [{'expr': {'name': f'v{i}', 'expr': imodel(e)}} for i, e in enumerate(exprs)]
                impl_outcome(lambda: runtime.execute_script({'statements': stmts}, options), out)     # pylint: disable=cell-var-from-loop
                out.pop('result', None)
                out['steps'] = [canon(g[f'v{i}'], lib) if f'v{i}' in g else 'unassigned' for i in range(len(exprs))]
            else:
                runtime.execute_script({'statements': TR_STATEMENTS}, options)
                strip_library(g, env)
                out['steps'] = []
                for e in exprs:
                    o = {}
                    impl_outcome(lambda: runtime.evaluate_expression(imodel(e), options, loc, builtins), o)  # pylint: disable=cell-var-from-loop
                    out['steps'].append(o)
            out['log'] = list(log)
        else:
            ref = make_ref(mode, env, loc, builtins)
            loc = ref.locals
            steps = []
            for i, e in enumerate(exprs):
                o = {}
                val = ref_outcome(lambda: ref.ev(e), o)                                              # pylint: disable=cell-var-from-loop
                if mode == 'exec':
                    if 'error' in o:
                        out['error'] = o['error']
                        break
                    ref.globals[f'v{i}'] = val
                    steps.append(o['result'])
                else:
                    steps.append(o)
            out['steps'] = steps + ['unassigned'] * (len(exprs) - len(steps))
            out['log'] = list(ref.log)
        out['calls'] = rec
        sides.append(out)
    return sides[1], sides[0]


def stream_host_calls(ctx):
    st = ctx.stream('host-calls', 'HOST-BOUNDARY callables: function values supplied by the host in globals / locals, declared in every way that accepts '
                                  'the documented call fn(args, options) - def f(args, options), options=None, extra optional parameters, *args, '
                                  '*args/**kwargs, (args, *rest), lambdas, bound methods, callable objects, static / class methods, functools.partial '
                                  'objects - each RECORDING its invocation and then doing work that fails part-way for some arguments (natural '
                                  'TypeError / IndexError / KeyError of its body, 20 exception classes (incl. exceptions whose __str__ raises) raised on an argument type or on the first '
                                  'invocation only, ValueArgsError with a return value, a BareScriptRuntimeError), consuming a queue, counting its '
                                  'invocations, reading a global through its options argument, or returning a host-subclass value: (1) ALL '
                                  'declarations x behaviours x 4 expression shapes (alone; inside a sum with ||; the selected branch of if; left of &&), '
                                  '(2) random trees to depth 5 with ~1/3 host calls over the value pool, (3) HISTORIES: 2-5 expressions evaluated one '
                                  'after the other on the same options / globals / function objects, some steps repeating an earlier expression (statements of one script, or repeated '
                                  'evaluate_expression calls continuing after a failed step). Oracles (host functions cannot be sent to the Lean '
                                  'driver: implementation-side only, the model is compared where no host function is named): the reference evaluator '
                                  '(a failed call is null / the ValueArgsError value; runtime errors propagate) and the invocation record - every '
                                  'call expression on the evaluated path invokes its function exactly once, left to right; non-trivial = every case')
    rng = ctx.rng('host-calls')
    batch = Batch(ctx, 'host-calls', st)
    base = {k: s for k, s in pool_specs().items() if k in ('n7', 'sa', 'a1', 'ae')}
    k = 0
    # (1) declarations x behaviours x shapes
    for sig in HOST_SIGS:
        for bi, (bspec, fail, ok) in enumerate(host_behaviours()):
            for shape, expr in host_templates(fail, ok):
                k += 1
                mode = 'exec' if k % 2 else 'eval'
                fspec = {'hostfn': dict(bspec, name='hf0', sig=sig)}
                gspecs, lspecs = dict(base), None
                if mode == 'eval' and k % 3 == 0:
                    lspecs = {'hf0': fspec}
                else:
                    gspecs['hf0'] = fspec
                case = Case(mode, expr, gspecs, lspecs, builtins=(k % 4 == 0),
                            tags=['family:declarations', 'sig:' + sig, 'body:' + bspec['body'] + (':' + bspec['exc'] if 'exc' in bspec else ''),
                                  'shape:' + shape, 'mode:' + mode + ('+locals' if lspecs else '')])
                batch.add(case, key=[sig, bi, shape])
    batch.flush()
    # (2) random trees with host calls
    names = [n for n, _, _ in POOL if n not in ('tr', 'rx')]
    for i in range(ctx.scale(2500, 30000)):
        nfn = rng.randint(1, 3)
        hostnames = HOST_NAMES[:nfn]
        alias = None
        if rng.random() < 0.1:
            alias = rng.choice(['max', 'len', 'text', 'abs'])               # a host function bound to the name of a built-in: the binding wins
            hostnames = hostnames + [alias]
        for _ in range(5):
            gen = HostTreeGen(rng, names + ['tr'] + (['hf0'] if rng.random() < 0.2 else []), rng.choice([2, 3, 4, 5, 5]), hostnames)
            expr = gen.tree()
            if 'call-host' in gen.kinds:
                break
        else:
            expr = progen.call(hostnames[0], expr)
        gspecs = pool_specs()
        fspecs = {n: host_fn_spec(rng, n) for n in hostnames}
        tags = ['family:trees', f'depth{min(expr_depth(expr), 9)}'] + sorted({'sig:' + f['hostfn']['sig'] for f in fspecs.values()}) + \
            sorted({'body:' + f['hostfn']['body'] for f in fspecs.values()})
        if i % 2:
            gspecs.update(fspecs)
            case = Case('exec', expr, gspecs, tags=tags + ['mode:exec'])
        else:
            for fn in LIB_IN_TREES + ['systemLog']:
                gspecs[fn] = {'lib': fn}
            lspecs = None
            if rng.random() < 0.4:
                lspecs = {n: fspecs.pop(n) for n in list(fspecs) if rng.random() < 0.6}
            gspecs.update(fspecs)
            case = Case('eval', expr, gspecs, lspecs, builtins=(alias is not None or rng.random() < 0.5),
                        tags=tags + ['mode:eval' + ('+locals' if lspecs else '')])
        batch.add(case)
        if i % 500 == 499:
            batch.flush()
    batch.flush()
    # (3) histories
    reports = 0
    for i in range(ctx.scale(500, 10000)):
        nfn = rng.randint(1, 2)
        hostnames = HOST_NAMES[:nfn]
        mode = 'exec' if i % 2 else 'eval'
        nsteps = rng.randint(2, 5)
        seq = []
        for j in range(nsteps):
            extra = [f'v{x}' for x in range(j)] if mode == 'exec' else []
            gen = HostTreeGen(rng, names + ['tr'], rng.choice([2, 3, 3, 4]), hostnames, rate=0.45)
            e = gen.tree()
            if extra and rng.random() < 0.5:
                e = progen.wf_binary(rng.choice(['+', '||', '&&', '==', '*']), var(rng.choice(extra)), e)
            if rng.random() < 0.08:
                e = progen.call('nope', e)                                   # an undefined function: the step fails, the history goes on
            if j and rng.random() < 0.25:
                e = seq[rng.randrange(j)]                                    # the SAME expression (object) again, on the changed state
            seq.append(e)
        gspecs = pool_specs()
        fspecs = {n: host_fn_spec(rng, n, body=rng.choice(['count', 'queue', 'raise-first', 'add1', 'raise-on-type', 'len', 'raise', 'first']))
                  for n in hostnames}
        lspecs = None
        if mode == 'eval':
            for fn in LIB_IN_TREES + ['systemLog']:
                gspecs[fn] = {'lib': fn}
            if rng.random() < 0.3:
                lspecs = {hostnames[0]: fspecs.pop(hostnames[0])}
        gspecs.update(fspecs)
        inp = {'mode': mode, 'texts': [text_of(e) for e in seq], 'seq': seq, 'globals': gspecs}
        if lspecs is not None:
            inp['locals'] = lspecs
        if mode == 'eval':
            inp['builtins'] = rng.random() < 0.5
        want, got = run_history(inp)
        if want != got and reports < ORDER_REPORT_CAP:
            reports += 1
            # the shortest failing prefix, then that step alone
            small = inp
            for n in range(1, nsteps + 1):
                cut = dict(inp, seq=seq[:n], texts=inp['texts'][:n])
                w, g = run_history(cut)
                if w != g:
                    small, want, got = cut, w, g
                    break
            ctx.witness(HISTORY_ORACLE, small, want, got, note=HISTORY_TEXT)
        st.case(['history', mode, seq, sorted(lspecs or {}), sorted((n, json.dumps(f, sort_keys=True)) for n, f in fspecs.items())],
                nontrivial=True,
                tags=['family:histories', 'mode:' + mode, f'steps{nsteps}', 'reference-only'] + sorted({'body:' + f['hostfn']['body'] for f in fspecs.values()}))


# ---------------------------------------------------------------------------------------------------------------------
# stream options-forms: every legal form of the `options` argument of evaluate_expression
# ---------------------------------------------------------------------------------------------------------------------

def stream_options_forms(ctx):
    st = ctx.stream('options-forms', 'evaluate_expression under every legal form of its options argument - left out / None (with locals and builtins '
                                     'also left out when possible), {}, globals None, no log function, debug mode with and without a log function - where '
                                     'everything the expression needs comes from the locals when there are no globals: (1) each of the 46 documented '
                                     'built-ins with typed, mistyped, missing and surplus arguments (so that many calls FAIL) vs the documented target '
                                     'library function called directly on the same argument values (a failed call is null / the failure value, never a '
                                     'host exception); (2) a host function that raises each of 20 exception classes (incl. exceptions whose __str__ raises or returns a '
                                     'non-string) under every form; (3) random expression trees to depth 5 over the value pool with library calls and host '
                                     'functions that fail, vs the reference evaluator and the Lean machine (empty globals; debug report lines are not '
                                     'part of the observed log); non-trivial = every case')
    mods = fw.impl()
    lib = mods['library'].SCRIPT_FUNCTIONS
    rng = ctx.rng('options-forms')
    batch = Batch(ctx, 'options-forms', st)
    forms = OPTION_FORMS[1:]
    base_specs = {k: s for k, s in pool_specs().items() if k in ('d1', 'd0', 'dd', 'a1', 'ae', 'o1')}
    reports = 0
    for alias, target in sorted(DOC_ALIASES.items()):
        for form in forms:
            for _ in range(ctx.scale(2, 30)):
                args = alias_args(rng, target)
                expr = progen.call(alias, *args)
                nog = form in NO_GLOBALS_FORMS
                used = expr_vars(expr)
                vals = {k: s for k, s in base_specs.items() if k in used}
                gspecs, lspecs = ({}, vals or None) if nog else (vals, None)
                case = Case('eval', expr, gspecs, lspecs, True, tags=['family:builtins', 'alias:' + alias, 'options:' + form], optform=form)
                env = build_env(gspecs)
                locals_ = build_env(lspecs) if lspecs is not None else None
                impl, _, _ = run_impl('eval', expr, env, locals_, True, form)
                argvals = [run_impl('eval', a, env, locals_, True, form)[1] for a in args]
                want = direct_call(lib.get(target), argvals, env)
                got = {k: impl[k] for k in impl if k != 'log'}
                if not same_outcome(alias, want, got, None) and reports < ORDER_REPORT_CAP:
                    reports += 1
                    ctx.witness('alias-is-documented-target', case.input(), want, got)
                st.case([alias, expr, form], nontrivial=True,
                        tags=case.tags + ['reference-only', 'error' if 'error' in impl else ('hostexc' if 'hostexc' in impl else
                                                                                                  'value:' + result_type(impl.get('result')))])
    # every exception class x every form of the options: the failed host call is null (in debug mode the report must not fail either)
    for form in forms:
        for exc in sorted(HOST_EXC):
            for sig in (['opt', 'two'] if ctx.quick else HOST_SIGS):
                fspec = {'hostfn': {'name': 'hf0', 'sig': sig, 'body': 'raise-on-type', 'exc': exc, 'data': 'string'}}
                expr = progen.binop('||', progen.call('hf0', progen.string('a')), progen.call('hf0', progen.num(3)))
                nog = form in NO_GLOBALS_FORMS
                case = Case('eval', expr, {} if nog else {'hf0': fspec}, {'hf0': fspec} if nog else None, False,
                            tags=['family:failing-host-call', 'options:' + form, 'exc:' + exc], optform=form)
                batch.add(case, key=[form, exc, sig])
    batch.flush()
    for i in range(ctx.scale(1500, 25000)):
        form = forms[i % len(forms)]
        nog = form in NO_GLOBALS_FORMS
        names = [n for n, _, _ in POOL if n not in ('tr', 'rx')]
        hostnames = HOST_NAMES[:rng.randint(1, 2)]
        gen = HostTreeGen(rng, names + ([] if nog else ['tr']), rng.choice([2, 3, 4, 5]), hostnames, trace=not nog, rate=0.15)
        expr = gen.tree()
        specs = pool_specs()
        for fn in LIB_IN_TREES + ['systemLog']:
            specs[fn] = {'lib': fn}
        for n in hostnames:
            specs[n] = host_fn_spec(rng, n, body=rng.choice(['add1', 'len', 'raise', 'raise-on-type', 'args-error', 'count', 'first', 'neg', 'global']))
        if nog:
            gspecs, lspecs = {}, specs
        else:
            gspecs, lspecs = specs, None
            if rng.random() < 0.4:
                lspecs = {n: gspecs.pop(n) for n in list(gspecs) if n != 'systemLog' and rng.random() < 0.2}    # tr needs the global systemLog
        case = Case('eval', expr, gspecs, lspecs, builtins=rng.random() < 0.6,
                    tags=['family:trees', 'options:' + form, f'depth{min(expr_depth(expr), 9)}'] + sorted(gen.kinds), optform=form)
        batch.add(case, key=form)
        if i % 500 == 499:
            batch.flush()
    batch.flush()


# ---------------------------------------------------------------------------------------------------------------------
# stream fresh-process: the value of an expression is a function of the expression and its operands - not of what the process
# evaluated before (values that the HOST's == / hash identify although the language, or its text, tells them apart)
# ---------------------------------------------------------------------------------------------------------------------

_FRESH_CHILD = r'''
import importlib.util, json, sys
harness, modpath = sys.argv[1], sys.argv[2]
sys.path.insert(0, harness)
import extract
spec = importlib.util.spec_from_file_location('c03_fresh_child', modpath)
mod = importlib.util.module_from_spec(spec)
spec.loader.exec_module(mod)
out = []
for group in json.load(sys.stdin):
    extract._CACHE['mods'] = extract.fresh_import()          # a fresh copy of the implementation modules for every group
    out.append([mod.fresh_outcome(inp) for inp in group])
json.dump(out, sys.stdout)
'''
FRESH_ORACLE = 'fresh-process-same-answer'
FRESH_TEXT = ('the value of an expression is defined by the expression and its operands: evaluated as the first thing a fresh interpreter '
              'does, or after other evaluations, it gives the same answer')


def fresh_outcome(inp):
    """one case input -> the implementation's outcome (JSON-able)"""
    case = case_of_input(inp)
    out, _, _ = run_impl(case.mode, case.expr, build_env(case.gspecs), build_env(case.lspecs) if case.lspecs is not None else None,
                         case.builtins, case.optform)
    return out


def fresh_run(groups, timeout=600):
    """[[case input]] -> [[outcome]]: every group evaluated IN ORDER by freshly imported implementation modules, in ONE new interpreter
    process (nothing of this process's state)"""
    harness = os.path.join(fw.VERIF, 'harness')
    res = subprocess.run([sys.executable, '-c', _FRESH_CHILD, harness, os.path.abspath(__file__)], input=json.dumps(groups),
                         capture_output=True, text=True, timeout=timeout, check=False)
    if res.returncode != 0:
        raise fw.Infra('fresh interpreter process failed: ' + res.stderr[-600:])
    return json.loads(res.stdout)


# groups of values that the host's == and hash identify (one cache key) - the language, or its text, does not
TWIN_GROUPS = [
    [fnum(0.0), fnum(-0.0), {'int': 0}, False, sub('float-sub', fnum(-0.0)), sub('int-enum', {'int': 0})],
    [fnum(1.0), {'int': 1}, True, sub('int-enum', {'int': 1})],
    [fnum(2.0), {'int': 2}, sub('float-sub', fnum(2.0))],
    [fnum(1e15), {'int': 10 ** 15}],
    [fnum(-3.0), {'int': -3}],
    ['1', sub('str-sub', '1'), sub('str-enum', '1')],
    [{'dta': DAY0 + [0]}, {'dta': DAY0 + [330]}, {'dta': DAY0 + [-480]}],
]
# (text with x for the operand, needs the built-in expression functions?)
TWIN_TEMPLATES = [
    ("'' + x", False), ("x + ''", False), ("x + 1", False), ("x * 2", False), ("0 - x", False), ("-x", False), ("!x", False),
    ("x == 0", False), ("x == 1", False), ("x < 1", False), ("x && 'y'", False), ("x || 'y'", False), ("if(x, 'T', 'F')", False),
    ("'[' + arrayNew(x, arrayNew(x)) + ']'", False), ("arrayNew(x) == arrayNew(1)", False), ("systemType(x)", False),
    ("2 ** x", False), ("7 / x", False), ("7 % x", False), ("x - x", False),
    ("text(x)", True), ("abs(x)", True), ("fixed(x, 1)", True), ("max(x, 0)", True), ("round(x)", True), ("sign(x)", True),
    ("len(x)", True), ("parseInt(x)", True), ("year(x)", True), ("lower(x)", True),
]


def twin_cases():
    parser = fw.impl()['parser']
    out = []
    for gi, group in enumerate(TWIN_GROUPS):
        for vi, spec in enumerate(group):
            for ti, (text, builtins) in enumerate(TWIN_TEMPLATES):
                expr = progen.canon_expr(parser.parse_expression(text))
                gspecs = {'x': spec}
                if builtins or (gi + vi + ti) % 2:
                    mode = 'eval'
                    for fn in ('arrayNew', 'systemType'):
                        if fn in expr_vars(expr):
                            gspecs[fn] = {'lib': fn}
                else:
                    mode = 'exec'
                out.append(Case(mode, expr, gspecs, None, builtins, tags=['family:twins', f'group{gi}', 'host:' + sub_kind(spec) if
                                                                              isinstance(spec, dict) and 'sub' in spec else 'plain']))
    return out


def stream_fresh_process(ctx):
    st = ctx.stream('fresh-process', 'PROCESS STATE: the same evaluation in a fresh interpreter gives the same answer. A list of cases - (1) 30 '
                                     'expression shapes (text of the operand by + and inside arrays, arithmetic, comparisons, truthiness, '
                                     'built-ins of expression mode) over every member of 7 groups of values that the host identifies (== and '
                                     'hash: 0.0 / -0.0 / 0 / false, 1.0 / 1 / true, 2.0 / 2, 1e15 float / int, str and str subclasses, one instant in '
                                     'three zones) although the language or its text tells them apart, (2) random expression trees of stream '
                                     'expr-eval - is evaluated three times: in this process (after everything the other streams evaluated), in '
                                     'list order by a NEW interpreter process, and in reverse order by another new process; every case must have '
                                     'the same outcome (value, error, log) in all three. A deviation is reduced to a two-step history [Y, X] '
                                     '(X after Y differs from X alone, both on freshly imported modules). Implementation-side only (the Lean '
                                     'model has no process state); non-trivial = every case')
    rng = ctx.rng('fresh-process')
    cases = twin_cases()
    for i in range(ctx.scale(300, 6000)):
        c = tree_case(rng, i)
        c.tags = ['family:trees']
        cases.append(c)
    inputs = [c.input() for c in cases]
    here = [fresh_outcome(inp) for inp in inputs]
    fwd = fresh_run([inputs])[0]
    rev = fresh_run([inputs[::-1]])[0][::-1]
    reports = 0
    for i, case in enumerate(cases):
        same = here[i] == fwd[i] == rev[i]
        st.case(['fresh', case.mode, case.expr, inputs[i]['globals'].get('x')], nontrivial=True,
                tags=case.tags + ['reference-only', 'same' if same else 'DIFFERENT'])
        if same or reports >= 6:
            continue
        reports += 1
        x = inputs[i]
        preds = (inputs[:i][::-1][:150] + inputs[i + 1:][:150])             # nearest first, both directions
        res = fresh_run([[x]] + [[y, x] for y in preds])
        alone = res[0][0]
        pair = next((y for y, r in zip(preds, res[1:]) if r[1] != alone), None)
        if pair is not None:
            after = next(r[1] for y, r in zip(preds, res[1:]) if r[1] != alone)
            ctx.witness(FRESH_ORACLE, {'history': [pair], 'case': x, 'texts': [pair.get('text'), x.get('text')]}, alone, after, note=FRESH_TEXT)
            continue
        for hist in (inputs[:i], inputs[i + 1:][::-1]):
            r = fresh_run([hist + [x]])[0][-1]
            if r != alone:
                ctx.witness(FRESH_ORACLE, {'history': hist, 'case': x, 'texts': [x.get('text')]}, alone, r, note=FRESH_TEXT)
                break
        else:
            ctx.disagree('fresh-process', x, here[i], alone, note='this check process (state left by the other streams) vs a fresh interpreter')


def fresh_replay(inp):
    res = fresh_run([[inp['case']], list(inp['history']) + [inp['case']]])
    return res[0][0] != res[1][-1]


# ---------------------------------------------------------------------------------------------------------------------
# stream number-edges: numbers at the EDGES of the number type (an IEEE double): not-a-number, the two infinities, the two zeros, the
# smallest and the largest magnitudes, the integers around 2^53 and the magnitudes at which the text of a number changes its form -
# supplied by the host (float and, where integral, int) or COMPUTED in the script (an overflowed product, the difference of two of
# them, 0 * -1) - under every operator, in comparisons bare and inside arrays / objects, and in random trees
# ---------------------------------------------------------------------------------------------------------------------

NAN, INF = float('nan'), float('inf')
DBL_MAX = sys.float_info.max
EDGE_FLOATS = [1.0, NAN, INF, -INF, 0.0, -0.0, 5e-324, -5e-324, 2.2250738585072014e-308, 1e-7, 0.1, 0.5, -1.0, 2.0, 3.0, 1e15,
               float(2 ** 53 - 1), 2.0 ** 53, 2.0 ** 53 + 2, -(2.0 ** 53), 9999999999999998.0, 1e16, -1e16, 1.2345678901234567e19, 1e21, 1e22,
               1e100, 1e308, -1e308, DBL_MAX, -DBL_MAX]
EDGE_INTS = [0, 1, -1, 3, 10 ** 15, 2 ** 52, -(2 ** 52), 2 ** 53 - 1, 2 ** 53, -(2 ** 53)]
EDGE_SPECS = [fnum(x) for x in EDGE_FLOATS] + [{'int': n} for n in EDGE_INTS]
EDGE_CONTAINERS = [[fnum(INF), fnum(1.0)], {'obj': [['k', fnum(NAN)]]}, [[fnum(-INF)]], [fnum(-0.0)], {'obj': [['k', [fnum(1e16), fnum(NAN)]]]}]
EDGE_QUICK_PARTNERS = ['vn', 'bt', 'bf', 'se', 's5', 'sa', 'd1', 'dd', 'ae', 'a1', 'oe', 'o1', 'fl', 'rx']


def _lit(x):
    return progen.num(Fraction(x))                        # literals are exactly representable doubles


def _overflow():
    return progen.group(progen.binop('*', _lit(1e308), _lit(10)))                      # (1e308 * 10): the product overflows to +infinity


# non-finite values and the negative zero have no literal: the ways a SCRIPT computes them (name -> (the value, expression))
EDGE_BUILT = {
    'inf:product': (INF, _overflow),
    'inf:sum': (INF, lambda: progen.group(progen.binop('+', _lit(DBL_MAX), _lit(DBL_MAX)))),
    '-inf:negated': (-INF, lambda: progen.group(progen.unop('-', _overflow()))),
    '-inf:product': (-INF, lambda: progen.group(progen.binop('*', _overflow(), progen.group(progen.binop('-', _lit(0), _lit(1)))))),
    'nan:inf-inf': (NAN, lambda: progen.group(progen.binop('-', _overflow(), _overflow()))),
    'nan:0*inf': (NAN, lambda: progen.group(progen.binop('*', _lit(0), _overflow()))),
    'nan:inf/inf': (NAN, lambda: progen.group(progen.binop('/', _overflow(), _overflow()))),
    'nan:inf%2': (NAN, lambda: progen.group(progen.binop('%', _overflow(), _lit(2)))),
    '-0:0*-1': (-0.0, lambda: progen.group(progen.binop('*', _lit(0), progen.group(progen.binop('-', _lit(0), _lit(1)))))),
    '-0:negated': (-0.0, lambda: progen.group(progen.unop('-', _lit(0)))),
    '-0:0/-5': (-0.0, lambda: progen.group(progen.binop('/', _lit(0), progen.group(progen.binop('-', _lit(0), _lit(5)))))),
    '-0:underflow': (-0.0, lambda: progen.group(progen.binop('*', progen.group(progen.unop('-', _lit(5e-324))), _lit(0.5)))),
    'max:literal': (DBL_MAX, lambda: _lit(DBL_MAX)),
    'tiny:literal': (5e-324, lambda: _lit(5e-324)),
    '1e16:product': (1e16, lambda: progen.group(progen.binop('*', _lit(1e8), _lit(1e8)))),
    '2^53:power': (2.0 ** 53, lambda: progen.group(progen.binop('**', _lit(2), _lit(53)))),
}
EDGE_LAW_ORACLE = 'number-comparison-laws'
EDGE_LAW_TEXT = ('comparisons use the total value order, and == is true only of the same value: for two numbers neither of which is not-a-number '
                 'the six answers [<, <=, >, >=, ==, !=] are those of their numeric order (-infinity below and +infinity above every finite '
                 'number, 0 equal to -0, an int equal to the float of the same value); not-a-number is not equal to any other number (== false, '
                 '!= true); always != is the negation of ==, <= is < or ==, >= is > or ==')


def edge_kind(spec):
    if isinstance(spec, dict) and len(spec) == 1 and next(iter(spec)) in ('num', 'int'):
        v = build(spec)
        if isinstance(v, int):
            return 'int' + ('>2^52' if abs(v) > 2 ** 52 else '')
        if v != v:
            return 'nan'
        if math.isinf(v):
            return 'infinity'
        if v == 0:
            return 'zero' if math.copysign(1.0, v) > 0 else 'negative-zero'
        return 'tiny' if abs(v) < 1e-300 else ('huge' if abs(v) >= 1e300 else ('>=1e16' if abs(v) >= 1e16 else ('>=2^53' if abs(v) >= 2 ** 53 else 'ordinary')))
    return 'other:' + spec_kind(spec)


def int_sum_beyond_exact(xs, ys):
    """Two HOST INTS whose sum / difference may leave the integers a double holds exactly (2^53).  The number type is the IEEE double
    (property C12 bounds the int spelling of a number by 1e15); the code multiplies two ints in floating point (fix F24) but still adds
    and subtracts them as Python integers, so beyond 2^53 the statement pins neither outcome: + and - of such a pair are not generated."""
    if isinstance(xs, dict) and isinstance(ys, dict) and 'int' in xs and 'int' in ys:
        return abs(int(xs['int'])) + abs(int(ys['int'])) > 2 ** 53
    return False


def edge_items(left, right, xs, ys):
    """every operator on the pair, and the TEXT of every arithmetic result and of the operands (the text tells -0 from 0)"""
    skip = ('+', '-') if int_sum_beyond_exact(xs, ys) else ()
    items = [progen.binop(op, left, right) for op in OPS if op not in skip]
    items += [progen.unop('-', left), progen.unop('!', left), progen.unop('-', right)]
    # the SIGN of a zero remainder of two host ints is the int's (0), of two floats the divisor's (-0): the text of int % int is not pinned
    both_int = isinstance(xs, dict) and isinstance(ys, dict) and 'int' in xs and 'int' in ys
    items += [progen.binop('+', progen.string(''), progen.group(progen.binop(op, left, right))) for op in ARITH
              if op not in skip and not (op == '%' and both_int)]
    items += [progen.binop('+', progen.string('<'), left), progen.binop('+', right, progen.string('>')),
              progen.binop('+', progen.string(''), progen.group(progen.unop('-', left)))]
    return items


def edge_add(batch, case, items, state, key):
    """One composite case through reference / model; a failing composite is reported item by item (the smallest failing expressions)."""
    checked = check_case(case)
    if checked[2]:
        if state['reports'] < ORDER_REPORT_CAP:
            state['reports'] += 1
            reported = False
            for item in items or []:
                used = expr_vars(item)
                single = Case(case.mode, item, {k: v for k, v in case.gspecs.items() if k in used}, None, case.builtins, tags=case.tags)
                for oracle, want, got in check_case(single)[2]:
                    reported = True
                    sig = json.dumps([oracle, single.expr, single.gspecs], sort_keys=True)
                    if sig not in state.setdefault('seen', set()):                  # a unary item does not depend on the partner
                        state['seen'].add(sig)
                        batch.ctx.witness(oracle, single.input(), want, got)
            if not reported:
                for oracle, want, got in checked[2]:
                    batch.ctx.witness(oracle, case.input(), want, got)
        checked = (checked[0], checked[1], [], checked[3], checked[4])
    return batch.add(case, checked=checked, key=key)


def edge_expected_answers(x, y):
    """[<, <=, >, >=, ==, !=] for two number specs from the STATEMENT (None: not pinned).  Python compares int / float / infinities exactly."""
    a, b = build(x), build(y)
    a_nan, b_nan = a != a, b != b
    if a_nan and b_nan:
        return [None] * 6
    if a_nan or b_nan:
        return [None, None, None, None, False, True]
    return [a < b, a <= b, a > b, a >= b, a == b, a != b]


def edge_law_check(x, y, answers):
    """-> description of the violated law, or None"""
    if answers is None:
        return 'no answers (six booleans expected)'
    lt, le, gt, ge, eq, ne = answers
    if ne != (not eq) or le != (lt or eq) or ge != (gt or eq):
        return f'inconsistent operators: [<, <=, >, >=, ==, !=] = {answers}'
    want = edge_expected_answers(x, y)
    if any(w is not None and w != g for w, g in zip(want, answers)):
        return f'[<, <=, >, >=, ==, !=] = {answers}, the statement gives {want} (null: not pinned)'
    return None


def edge_law_failure(form, mode, x, y):
    case = val_case(form, mode, x, y)
    impl, _, _ = run_impl(mode, case.expr, build_env(case.gspecs))
    return edge_law_check(x, y, answers_of(impl))


def edge_built_case(mode, lname, rname):
    """both operands COMPUTED by the script: arrayNew(every operator on the pair ...)"""
    left, right = EDGE_BUILT[lname][1](), EDGE_BUILT[rname][1]()
    lv, rv = fnum(EDGE_BUILT[lname][0]), fnum(EDGE_BUILT[rname][0])
    items = edge_items(left, right, lv, rv)
    gspecs = {'arrayNew': {'lib': 'arrayNew'}} if mode == 'eval' else {}
    return Case(mode, progen.call('arrayNew', *items), gspecs, tags=['family:computed', 'left:' + edge_kind(lv), 'right:' + edge_kind(rv), 'mode:' + mode]), items


EDGE_NAMES = {}                                            # tree variable name -> spec (floats only: see int_sum_beyond_exact)
for _i, _x in enumerate(EDGE_FLOATS):
    EDGE_NAMES[f'e{_i}'] = fnum(_x)
    POOL_TYPE[f'e{_i}'] = 'number'


class EdgeTreeGen(TreeGen):
    """random trees in which about a third of the leaves are edge numbers: host variables, exact literals, or computed non-finite values"""

    def atom(self):
        r = self.rng.random()
        if r < 0.2:
            return var(self.rng.choice(sorted(EDGE_NAMES)))
        if r < 0.28:
            x = self.rng.choice([v for v in EDGE_FLOATS if math.isfinite(v) and v >= 0 and not (v == 0 and math.copysign(1.0, v) < 0)])
            return _lit(x)
        if r < 0.36:
            return EDGE_BUILT[self.rng.choice(sorted(EDGE_BUILT))][1]()
        return super().atom()


def stream_number_edges(ctx):
    st = ctx.stream('number-edges', 'NUMBERS AT THE EDGES of the number type (IEEE double): not-a-number, +/-infinity, 0.0 / -0.0 / int 0, the smallest '
                                    'subnormal and normal, 0.1, the integers around 2^53 (float and int), 1e15, 9999999999999998, 1e16 .. 1e22 (where the text of a '
                                    'number changes its form), 1e100, 1e308, the largest double, with signs - (1) host-supplied: ALL ordered pairs of these '
                                    '41 values, and each against a value of every other type in both positions: all 14 binary and both unary operators plus '
                                    'the TEXT (string +) of every arithmetic result and operand, in one evaluation; (2) COMPUTED in the script (an overflowed '
                                    'product or sum, its negation, infinity - infinity, 0 * infinity, infinity / infinity, infinity % 2, 0 * -1, -(0), 0 / -5, an '
                                    'underflow, 1e8 * 1e8, 2 ** 53): all ordered pairs; (3) the six comparisons of ALL ordered pairs bare and inside '
                                    'order-embedding arrays / objects (built by the host or by arrayNew / objectNew); (4) random trees to depth 6 in which a '
                                    'third of the leaves are such numbers. Oracles: the reference evaluator (doubles; typed table), the Lean machine where every '
                                    'step is finite and exact, and reference-free: the comparison laws of the statement (numeric order with the infinities at '
                                    'the ends, == only of the same value - not-a-number equals no other number, operators consistent) and order-embedding. '
                                    'Non-finite numbers and -0 text cannot be sent to the Lean driver (implementation-side oracles only). Not generated: + / - of '
                                    'two HOST INTS beyond 2^53 (the number type is the double, C12 bounds the int spelling by 1e15; the code adds two ints '
                                    'exactly but multiplies them in floating point: neither outcome is pinned); non-trivial = every case')
    rng = ctx.rng('number-edges')
    batch = Batch(ctx, 'number-edges', st)
    state = {'reports': 0}
    k = 0
    # (1) host-supplied operands, every operator
    partners = [(n, s) for n, _, s in POOL if n != 'tr' and POOL_TYPE[n] != 'number' and (not ctx.quick or n in EDGE_QUICK_PARTNERS)]
    pairs = [(xs, ys, 'number') for xs in EDGE_SPECS for ys in EDGE_SPECS]
    for xs in EDGE_SPECS:
        for pn, ps in partners:
            pairs += [(xs, ps, POOL_TYPE[pn]), (ps, xs, POOL_TYPE[pn])]
        for ps in EDGE_CONTAINERS:                         # containers HOLDING a non-finite number / -0 (they have no JSON text: string + is null)
            pairs += [(xs, ps, 'edge-' + spec_kind(ps)), (ps, xs, 'edge-' + spec_kind(ps))]
    pairs += [(ps, qs, 'edge-' + spec_kind(qs)) for ps in EDGE_CONTAINERS + ['s', ''] for qs in EDGE_CONTAINERS + ['s', '']]
    for xs, ys, ptype in pairs:
        k += 1
        mode = 'exec' if k % 2 else 'eval'
        gspecs = {'x': xs, 'y': ys}
        items = edge_items(var('x'), var('y'), xs, ys)
        if mode == 'eval':
            gspecs['arrayNew'] = {'lib': 'arrayNew'}
        case = Case(mode, progen.call('arrayNew', *items), gspecs,
                    tags=['family:operators', 'left:' + edge_kind(xs), 'right:' + edge_kind(ys), 'partner:' + ptype, 'mode:' + mode])
        edge_add(batch, case, items, state, key=[xs, ys])
        if k % 400 == 0:
            batch.flush()
    batch.flush()
    # (2) operands computed by the script
    for lname in sorted(EDGE_BUILT):
        for rname in sorted(EDGE_BUILT):
            k += 1
            case, items = edge_built_case('exec' if k % 2 else 'eval', lname, rname)
            edge_add(batch, case, items, state, key=[lname, rname])
    batch.flush()
    # (3) comparisons: bare and inside order-embedding contexts, with the laws of the statement
    law_reports = embed_reports = 0
    for i, xs in enumerate(EDGE_SPECS):
        for j, ys in enumerate(EDGE_SPECS):
            k += 1
            mode = 'exec' if k % 3 else 'eval'
            forms = ['var'] + ([VAL_FORMS[(i * 3 + j + (i * j) // 5) % len(VAL_FORMS)]] if ctx.quick else VAL_FORMS)
            bare = None
            for form in forms:
                case = val_case(form, mode, xs, ys, tags=['family:comparisons', 'form:' + form, 'mode:' + mode, 'left:' + edge_kind(xs),
                                                          'right:' + edge_kind(ys)])
                flags = ['lib-built-operand'] if form == 'built' and mode == 'eval' else []
                checked = check_case(case)
                if checked[2]:
                    if state['reports'] < ORDER_REPORT_CAP:
                        state['reports'] += 1
                        for op in REL_OPS:
                            single = val_case(form, mode, xs, ys, ops=op, tags=case.tags)
                            for oracle, want, got in check_case(single)[2]:
                                ctx.witness(oracle, single.input(), want, got)
                    checked = (checked[0], checked[1], [], checked[3], checked[4])
                impl, _ = batch.add(case, checked=checked, extra_flags=flags, key=['cmp', form, xs, ys])
                answers = answers_of(impl)
                if form == 'var':
                    bare = answers
                bad = edge_law_check(xs, ys, answers)
                if bad is not None and law_reports < ORDER_REPORT_CAP:
                    law_reports += 1
                    ctx.witness(EDGE_LAW_ORACLE, {'form': form, 'mode': mode, 'x': xs, 'y': ys, 'text': text_of(case.expr), 'globals': case.gspecs},
                                EDGE_LAW_TEXT, bad)
                if form != 'var' and answers != bare and embed_reports < ORDER_REPORT_CAP:
                    got = embedding_failure(form, mode, xs, ys)
                    if got is not None:
                        embed_reports += 1
                        ctx.witness('order-embedding', {'form': form, 'mode': mode, 'x': xs, 'y': ys, 'text': text_of(case.expr),
                                                        'globals': case.gspecs}, EMBEDDING_TEXT, got)
        batch.flush()
    # (4) random trees with edge numbers among the leaves
    names = [n for n, _, _ in POOL if n not in ('tr', 'rx')]
    especs = dict(pool_specs())
    especs.update(EDGE_NAMES)
    for i in range(ctx.scale(1500, 30000)):
        gen = EdgeTreeGen(rng, names + sorted(EDGE_NAMES) + ['tr'], rng.choice([2, 3, 4, 5, 6, 6]))
        expr = gen.tree()
        gspecs = dict(especs)
        tags = ['family:trees', f'depth{min(expr_depth(expr), 9)}']
        if i % 5 < 3:
            case = Case('exec', expr, gspecs, tags=tags + ['mode:exec'])
        else:
            for fn in LIB_IN_TREES + ['systemLog']:
                gspecs[fn] = {'lib': fn}
            case = Case('eval', expr, gspecs, None, builtins=rng.random() < 0.5, tags=tags + ['mode:eval'])
        batch.add(case, nontrivial=expr_depth(expr) >= 2)
        if i % 500 == 499:
            batch.flush()
    batch.flush()


# ---------------------------------------------------------------------------------------------------------------------
# stream repeated-effects: structurally IDENTICAL effectful sub-expressions at several sites of one expression
# ---------------------------------------------------------------------------------------------------------------------

SITES_ORACLE = 'identical-sites-evaluate-like-labelled-sites'
SITES_TEXT = ('sub-expressions and call arguments are evaluated exactly once, left to right, and if() evaluates its test and only the selected '
              'branch: every SITE of an expression is a sub-expression of its own, whatever its text - two sites with the same text are two '
              'evaluations. Wrapping every call site i in the logging call tr(\'@i\', <site>) (which makes all sites textually distinct and '
              'changes no value) must change neither the result nor the calls made nor the log apart from the added @i lines; the @i lines are '
              'the sequence of sites the language evaluates')
SITE_MARK = '@'
REP_SCALE = [0, 1, 2, 9, 10, 11, 16, 17, 64, 65, 100, 101, 128, 129, 256, 1000]
REP_HOST = {
    'tick': {'hostfn': {'name': 'tick', 'sig': 'opt', 'body': 'count'}},                      # 1, 2, 3, ...: a different value at every evaluation
    'pop': {'hostfn': {'name': 'pop', 'sig': 'two', 'body': 'queue',                          # 0, 5, 0, 7, null (failed), 3, then failing calls
                       'queue': [{'int': 0}, {'int': 5}, {'int': 0}, {'int': 7}, None, {'int': 3}]}},
    'bump': {'hostfn': {'name': 'bump', 'sig': 'method-opt', 'body': 'bump', 'data': 'cnt'}},  # cnt = cnt + 1 through the options' globals
    'once': {'hostfn': {'name': 'once', 'sig': 'partial', 'body': 'raise-first', 'exc': 'KeyError'}},   # fails at its first evaluation only
    'rec': {'hostfn': {'name': 'rec', 'sig': 'star', 'body': 'first'}},
}


def rep_specs(mode):
    gspecs = {k: s for k, s in pool_specs().items() if k in ('n7', 'n0', 'n1', 'vn', 'se', 'sa', 'a1', 'ae', 'bt', 'bf')}
    gspecs['cnt'] = {'int': 0}
    gspecs.update(REP_HOST)
    if mode == 'eval':
        for fn in LIB_IN_TREES + ['systemLog']:
            gspecs[fn] = {'lib': fn}
    return gspecs


def rep_atoms():
    """(name, the effectful sub-expression E, a READ R whose value depends on the effects made so far, number of tr calls in E)"""
    tick = progen.call('tick')
    return [
        ('log-truthy', traced('x', var('n7')), progen.num(1), 1),
        ('log-zero', traced('x', var('n0')), progen.num(1), 1),
        ('log-null', traced('x', var('vn')), progen.string('r'), 1),
        ('log-empty', traced('x', var('se')), var('sa'), 1),
        ('log-nested', traced('x', traced('x', var('bt'))), progen.num(2), 2),
        ('count', tick, progen.num(1), 0),
        ('count-1', progen.binop('-', tick, progen.num(1)), progen.num(1), 0),                         # 0 (falsy) first, then 1, 2, ...
        ('count-odd', progen.binop('%', tick, progen.num(2)), progen.num(1), 0),                       # 1, 0, 1, 0, ...
        ('queue', progen.call('pop', progen.num(1)), progen.num(1), 0),
        ('global', progen.call('bump'), var('cnt'), 0),
        ('global-read', progen.binop('+', progen.call('bump'), var('cnt')), var('cnt'), 0),
        ('fails-first', progen.call('once', progen.num(4)), progen.num(1), 0),
        ('call-in-call', progen.call('rec', tick, tick), progen.num(1), 0),
        ('logged-count', traced('x', tick), progen.num(1), 1),
    ]


def rep_templates(E, R):
    """(shape, expression) with E at several sites: test / branches of if, both operands of every operator, several arguments of one call"""
    X = progen.string('alt')
    iff = lambda *a: progen.call('if', *a)
    b = progen.wf_binary
    one, five = progen.num(1), progen.num(5)
    out = [
        ('if:test=then', iff(E, E, X)), ('if:test=else', iff(E, X, E)), ('if:all', iff(E, E, E)), ('if:two', iff(E, E)), ('if:four', iff(E, E, E, E)),
        ('if:branches', iff(R, E, E)), ('if:branches-f', iff(var('vn'), E, E)),
        ('if:not-test=else', iff(progen.unop('!', E), X, E)), ('if:not-test=then', iff(progen.unop('!', E), E, X)),
        ('if:op-test=else', iff(b('-', E, one), five, b('-', E, one))), ('if:op-test=then', iff(b('>', E, one), b('>', E, one), X)),
        ('if:group-then', iff(E, progen.group(E), X)), ('if:group-test', iff(progen.group(E), E, X)),
        ('if:nested-else', iff(b('>', E, five), X, iff(b('>', E, five), X, E))),
        ('if:nested-all', iff(iff(E, E, X), iff(E, E, X), iff(E, E, X))),
        ('if:in-then', iff(E, iff(E, E, X), X)), ('if:in-else', iff(E, X, iff(E, X, E))),
        ('if:or', b('||', iff(E, E, X), iff(E, E, X))), ('if:sum', b('+', iff(E, E, X), iff(E, X, E))),
        ('if:in-args', progen.call('arrayNew', iff(E, E, X), iff(E, E, X))),
        ('if:test-is-call-of', iff(progen.call('rec', E), progen.call('rec', E), X)),
        ('read-around', b('+', b('+', R, E), R)), ('read-if', iff(R, R, E)), ('read-args', progen.call('arrayNew', R, E, R, E, R)),
        ('unary-', b('+', progen.unop('-', E), progen.unop('-', E))), ('unary!', b('==', progen.unop('!', E), progen.unop('!', E))),
        ('args2', progen.call('arrayNew', E, E)), ('args3', progen.call('arrayNew', E, E, E)), ('args-host', progen.call('rec', E, E)),
        ('args-nested', progen.call('arrayNew', progen.call('arrayNew', E, E), progen.call('arrayNew', E, E))),
        ('args-undefined', progen.call('nope', E, E)), ('args-logged', traced('y', progen.call('arrayNew', E, E))),
        ('deep', b('*', progen.group(b('+', E, E)), progen.group(b('+', E, E)))),
        ('and-or', b('||', b('&&', E, E), b('&&', E, E))), ('or-and', b('&&', progen.group(b('||', E, E)), progen.group(b('||', E, E)))),
    ]
    for op in OPS:
        out.append(('binary' + op, b(op, E, E)))
        out.append(('binary3' + op, b(op, b(op, E, E), E)))
    return out


def rep_scaled(E, n):
    """n identical sites: (flat) n arguments of one call, (chain) a left-nested sum of n terms, (ifs) n nested if(E, E, <next>)"""
    out = [('scale:args', progen.call('arrayNew', *[E] * n))]
    if 1 <= n <= 256:
        chain = E
        for _ in range(n - 1):
            chain = progen.binop('+', chain, E)
        out.append(('scale:chain', chain))
    if 1 <= n <= 129:
        ors = E
        for _ in range(n - 1):
            ors = progen.binop('||', progen.binop('&&', ors, var('vn')), E)          # every term is evaluated: (.. && null) is falsy
        out.append(('scale:or-chain', ors))
    if 1 <= n <= 101:
        ifs = progen.string('end')
        for i in range(n):                                # the rest of the chain in ONE branch (alternating), E in the other
            ifs = progen.call('if', E, ifs, E) if (i + n) % 2 else progen.call('if', E, E, ifs)
        out.append(('scale:ifs', ifs))
        thens = E
        for i in range(n - 1):                            # test = then-branch at every level, the rest of the chain in the else-branch
            thens = progen.call('if', progen.unop('!', E), progen.unop('!', E), thens)
        out.append(('scale:if-not', thens))
    return out


def label_sites(e, counter):
    """every call site (not the if() form itself, not the labels) wrapped in tr('@i', <site>), numbered in source order"""
    (k, v), = e.items()
    if k in ('number', 'string', 'variable'):
        return e
    if k == 'group':
        return {'group': label_sites(v, counter)}
    if k == 'unary':
        return {'unary': {'op': v['op'], 'expr': label_sites(v['expr'], counter)}}
    if k == 'binary':
        return {'binary': {'op': v['op'], 'left': label_sites(v['left'], counter), 'right': label_sites(v['right'], counter)}}
    if v['name'] == 'if':
        return {'function': {'name': 'if', 'args': [label_sites(a, counter) for a in v['args']]}}
    counter[0] += 1
    label = f'{SITE_MARK}{counter[0]}'
    return traced(label, {'function': {'name': v['name'], 'args': [label_sites(a, counter) for a in v['args']]}})


def count_calls(e):
    (k, v), = e.items()
    if k in ('number', 'string', 'variable'):
        return 0
    if k == 'group':
        return count_calls(v)
    if k == 'unary':
        return count_calls(v['expr'])
    if k == 'binary':
        return count_calls(v['left']) + count_calls(v['right'])
    return (v['name'] != 'if') + sum(count_calls(a) for a in v['args'])


def sites_failure(case, own=None):
    """-> None or (expected, actual): the case's own evaluation vs the evaluation of its site-labelled twin (implementation only)"""
    def run(expr, share):
        record = []
        env = build_env(case.gspecs, record)
        loc = build_env(case.lspecs, record) if case.lspecs is not None else None
        out, _, g = run_impl(case.mode, expr, env, loc, case.builtins, case.optform, share)
        return out, record, canon(g.get('cnt'), fw.impl()['library'].SCRIPT_FUNCTIONS)
    impl, rec, cnt = own if own is not None else run(case.expr, case.share)
    twin, trec, tcnt = run(label_sites(case.expr, [0]), False)
    is_mark = lambda ln: isinstance(ln, str) and ln.startswith(SITE_MARK)             # pylint: disable=unnecessary-lambda-assignment
    sites = [ln for ln in twin['log'] if is_mark(ln)]
    want = {k: twin[k] for k in twin if k != 'log'}
    want.update(log=[ln for ln in twin['log'] if not is_mark(ln)], calls=trec, sites=sites)
    got = {k: impl[k] for k in impl if k != 'log'}
    got.update(log=impl['log'], calls=rec, sites=sites)
    want['cnt'], got['cnt'] = tcnt, cnt
    return None if want == got else (want, got)


class RepTreeGen(HostTreeGen):
    """random trees whose atoms are, half of the time, one of a few fixed effectful sub-expressions (so the same text recurs at many sites)"""

    def __init__(self, rng, names, maxdepth, hostnames, clones):
        super().__init__(rng, names, maxdepth, hostnames, rate=0.12)
        self.clones = clones

    def atom(self):
        if self.rng.random() < 0.6:
            return self.rng.choice(self.clones)
        return super().atom()

    def tree(self, depth=1):
        rng = self.rng
        if depth < self.maxdepth and rng.random() < 0.12:
            # an if() whose test recurs as a branch / whose branches are the same
            c = self.tree(depth + 1)
            other = self.tree(depth + 1)
            self.kinds.add('if-repeat')
            return progen.call('if', *rng.choice([[c, c, other], [c, other, c], [other, c, c], [c, c], [c, c, c]]))
        if depth < self.maxdepth and rng.random() < 0.08:
            c = self.tree(depth + 1)
            self.kinds.add('op-repeat')
            return progen.wf_binary(rng.choice(OPS), c, c)
        return super().tree(depth)


def rep_case(mode, expr, tags, k, builtins=False):
    share = k % 3 == 2
    return Case(mode, expr, rep_specs(mode), None, builtins, tags=list(tags) + ['mode:' + mode, 'model:' + ('shared-objects' if share else 'copies')],
                share=share)


def stream_repeated_effects(ctx):
    st = ctx.stream('repeated-effects', 'STRUCTURALLY IDENTICAL effectful sub-expressions at several sites of one expression. The repeated text E is a logging '
                                        'call with ONE tag (truthy / 0 / null / empty value, nested in itself), a host function that counts its invocations '
                                        '(1, 2, 3, ...: alone, minus 1 - falsy first -, modulo 2), consumes a queue (0, 5, 0, 7, a failing item, ...), '
                                        'changes a global through its options (with a READ of that global beside it), fails at its first evaluation only, or '
                                        'a call with E twice among its arguments. (1) 14 texts x 63 shapes: test = then-branch, test = else-branch, '
                                        'all of if (2 / 3 / 4 arguments), both branches, under ! / an operator / a group / a call in test and branch, '
                                        'nested ifs, both operands of each of the 14 operators (and E op E op E), under both unary operators, 2 / 3 '
                                        'arguments of a library / host / undefined function, nested argument lists, a read of the changed global around '
                                        'the effect; (2) SCALE: n identical sites for n in 0, 1, 2, 9, 10, 11, 16, 17, 64, 65, 100, 101, 128, 129, 256, 1000 as '
                                        'arguments of one call (all n), a left-nested sum (n <= 256), an or-chain (n <= 129), nested ifs with the chain in alternating branches / with test = then-branch at every level (n <= 101); (3) random '
                                        'trees to depth 5 whose atoms are 1-3 fixed effectful sub-expressions (themselves random, depth <= 3), with ifs whose '
                                        'test recurs as a branch and operators with twice the same operand. Through execute_script and evaluate_expression, '
                                        'and with an expression model in which equal sub-trees are ONE object (a host-built model; the parser never shares). '
                                        'Oracles: the reference evaluator (value, log, invocation record: every site evaluated as often as the language '
                                        'says, in order), the Lean machine where no host function is named, and (implementation only) the SITE-LABELLED TWIN: '
                                        'every call site i wrapped in tr(\'@i\', site) - all sites textually distinct - must give the same result, calls and '
                                        'log apart from the @i lines; non-trivial = every case')
    rng = ctx.rng('repeated-effects')
    batch = Batch(ctx, 'repeated-effects', st)
    reports = [0]

    def add(case, key=None, twin=True):
        rec_i, rec_r = [], []
        env_i, env_r = build_env(case.gspecs, rec_i), build_env(case.gspecs, rec_r)
        impl, res, g = run_impl(case.mode, case.expr, env_i, None, case.builtins, case.optform, case.share)
        rout, _, ref = run_ref(case.mode, case.expr, env_r, None, case.builtins, case.optform)
        fails = []
        if 'hostexc' in impl:
            fails.append(('no-host-exception', rout, impl))
        else:
            if ('error' in impl) != ('error' in rout) or impl.get('error') != rout.get('error') or impl.get('result') != rout.get('result'):
                fails.append(('typed-operator-value', {k: rout[k] for k in rout if k != 'log'}, {k: impl[k] for k in impl if k != 'log'}))
            if impl['log'] != rout['log']:
                fails.append(('evaluation-order-and-laziness', rout['log'], impl['log']))
        if rec_i != rec_r:
            fails.append((HOST_ONCE, rec_r, rec_i))
        cnt = canon(g.get('cnt'), fw.impl()['library'].SCRIPT_FUNCTIONS)
        del res
        if reports[0] >= ORDER_REPORT_CAP:
            fails = []
        elif fails:
            reports[0] += 1
        batch.add(case, checked=(impl, ref, fails, env_i, None), key=key)
        if twin and reports[0] < ORDER_REPORT_CAP:
            bad = sites_failure(case, (impl, rec_i, cnt))
            if bad is not None:
                reports[0] += 1
                ctx.witness(SITES_ORACLE, case.input(), bad[0], bad[1], note=SITES_TEXT)

    # (1) texts x shapes
    k = 0
    for aname, E, R, _ in rep_atoms():
        for shape, expr in rep_templates(E, R):
            k += 1
            mode = 'exec' if k % 2 else 'eval'
            add(rep_case(mode, expr, ['family:shapes', 'text:' + aname, 'shape:' + shape], k, builtins=(k % 4 == 0)), key=[aname, shape])
    batch.flush()
    # (2) scale
    for aname, E, _, ntr in rep_atoms():
        if aname not in ('log-truthy', 'count', 'count-odd', 'queue', 'global-read', 'logged-count'):
            continue
        for n in REP_SCALE:
            if ctx.quick and n == 1000 and aname not in ('count', 'log-truthy'):
                continue
            for shape, expr in rep_scaled(E, n):
                k += 1
                sites = n * (2 if shape in ('scale:ifs', 'scale:if-not') else 1)
                # every tr call is two statements of the script function: stay well inside maxStatements (exceeding it is property C01/C04)
                if 2 * ntr * sites + 8 > MAXS:
                    continue
                twin = 2 * (ntr * sites + count_calls(expr)) + 8 <= MAXS
                mode = 'exec' if k % 2 else 'eval'
                add(rep_case(mode, expr, ['family:scale', 'text:' + aname, 'shape:' + shape, f'sites:{n}'] + ([] if twin else ['no-twin']), k),
                    key=[aname, shape, n], twin=twin)
    batch.flush()
    # (3) random trees over a few fixed effectful sub-expressions
    names = ['n7', 'n0', 'n1', 'vn', 'se', 'sa', 'a1', 'ae', 'bt', 'bf', 'cnt']
    hostnames = ['tick', 'pop', 'bump', 'once', 'rec']
    for i in range(ctx.scale(1500, 20000)):
        clones = []
        for _ in range(rng.randint(1, 3)):
            for _ in range(6):
                cg = HostTreeGen(rng, names + ['tr'], rng.choice([2, 2, 3]), hostnames, rate=0.55)
                c = cg.tree()
                if 'call-host' in cg.kinds or 'function' in c and c['function']['name'] == 'tr':
                    break
            else:
                c = progen.call('tick')
            clones.append(c)
        gen = RepTreeGen(rng, names + ['tr'], rng.choice([2, 3, 3, 4, 4, 5]), hostnames, clones)
        expr = gen.tree()
        mode = 'exec' if i % 2 else 'eval'
        tags = ['family:trees', f'depth{min(expr_depth(expr), 9)}'] + sorted(x for x in gen.kinds if x.endswith('repeat'))
        add(rep_case(mode, expr, tags, i, builtins=(i % 4 == 0)), twin=2 * (3 * count_calls(expr)) + 8 <= MAXS)
        if i % 500 == 499:
            batch.flush()
    batch.flush()


# ---------------------------------------------------------------------------------------------------------------------
# stream alias-all-types: every expression built-in on argument lists of EVERY value type vs its documented library function
# ---------------------------------------------------------------------------------------------------------------------

ALIAS_TYPES_ORACLE = 'alias-equals-library-function-on-every-type'
ALIAS_TYPES_TEXT = ('in expression mode each built-in behaves exactly as the library function it is documented to alias - for arguments of EVERY value '
                    'type and any number of them: same result (a failed call gives the failure value of the library function, else null), same '
                    'failure text (the debug-mode report of the failed call carries the library function\'s error), same state of the arguments '
                    'afterwards and same invocations of functions passed as arguments')
FAILED_WITH = 'failed with error: '
AT_CB = {'hostfn': {'name': 'cb', 'sig': 'opt', 'body': 'first'}}                   # a recording host function, as an ARGUMENT value
# (name, type, spec, rank): rank 0 = in every tier's pair / triple matrices, 1 = pair matrix, 2 = single arguments (and thorough pairs) only.
# No finite number beyond 1e15: numberToFixed / mathRound compute 10 ** digits (minutes for a huge digit count; known finding on their digits).
AT_VALUES = [
    ('null', 'null', None, 0), ('true', 'boolean', True, 0), ('false', 'boolean', False, 1),
    ('0', 'number', fnum(0.0), 1), ('-0', 'number', fnum(-0.0), 2), ('i1', 'number', {'int': 1}, 0), ('i3', 'number', {'int': 3}, 1),
    ('2.5', 'number', fnum(2.5), 1), ('-2', 'number', fnum(-2.0), 0), ('i65', 'number', {'int': 65}, 2), ('i16', 'number', {'int': 16}, 2),
    ('0.5', 'number', fnum(0.5), 2), ('1e300', 'number', fnum(1e300), 1), ('nan', 'number', fnum(NAN), 2), ('inf', 'number', fnum(INF), 2),
    ('int-enum', 'number', sub('int-enum', {'int': 3}), 2),
    ('empty', 'string', '', 1), ('abcabc', 'string', 'abcabc', 0), ('b', 'string', 'b', 0), ('12', 'string', '12', 1),
    ('padded', 'string', ' Ab c ', 2), ('3.5e2x', 'string', '3.5e2x', 2), ('astral', 'string', '\U0001f600\xe9b', 2), ('dot', 'string', '.', 2),
    ('str-sub', 'string', sub('str-sub', 'abc'), 2),
    ('dt', 'datetime', {'dt': [2024, 2, 29, 13, 14, 15, 16000]}, 0), ('date', 'datetime', {'date': [2020, 1, 2]}, 1),
    ('dt-aware', 'datetime', {'dta': [2024, 2, 29, 13, 14, 15, 16000, 330]}, 2),
    ('arr-empty', 'array', [], 1), ('arr', 'array', [{'int': 1}, {'int': 2}, 'b', {'int': 2}], 0), ('arr-str', 'array', ['b', 'abcabc', 'b'], 1),
    ('arr-nested', 'array', [[{'int': 1}], 'b'], 2), ('list-sub', 'array', sub('list-sub', ['b', fnum(1.0)]), 2),
    ('obj-empty', 'object', {'obj': []}, 1), ('obj', 'object', {'obj': [['a', {'int': 1}], ['b', 'b']]}, 0), ('obj-length', 'object', {'obj': [['length', {'int': 3}]]}, 2),
    ('fn-lib', 'function', {'lib': 'systemType'}, 1), ('fn-host', 'function', AT_CB, 0), ('fn-len', 'function', {'lib': 'arrayLength'}, 2),
    ('regex', 'regex', {'re': 'b'}, 0), ('regex-groups', 'regex', {'re': '(a)(b)?'}, 2),
]
AT_SPEC = {name: spec for name, _, spec, _ in AT_VALUES}
AT_TYPE = {name: ty for name, ty, _, _ in AT_VALUES}
# third arguments: one value of every type (arrays unsorted and with a repeated element: sorting / reversing in place would show)
AT_THIRD = ['i1', 'null', 'b', '-2', 'arr', 'true', 'fn-host', 'regex', 'obj', 'dt', '2.5', 'empty']
AT_FORMS = ['debug', 'debug', 'full', 'debug', 'none', 'debug', 'no-logfn', 'debug-no-logfn', 'empty']
AT_BINDS = ['globals', 'locals', 'mixed']


def scanon(v, lib):
    """canon, telling -0 from 0 (the value a library function returns is observable through 1 / x and its text)"""
    if isinstance(v, float) and v == 0 and math.copysign(1.0, v) < 0:
        return {'n': [0, 1], 'negative-zero': True}
    if isinstance(v, list):
        return [scanon(x, lib) for x in v]
    if isinstance(v, dict):
        return {'o': [[k, scanon(v[k], lib)] for k in sorted(v, key=str)]}
    return canon(v, lib)


def alias_types_run(inp):
    """inp: {'alias', 'args': [value names], 'options': form, 'bind'} -> (expected, actual).  expected: the documented library function called
    directly on freshly built argument values under the call wrapper's contract; actual: the alias through evaluate_expression(builtins=True)"""
    mods = fw.impl()
    runtime, value = mods['runtime'], mods['value']
    lib = mods['library'].SCRIPT_FUNCTIONS
    alias, names, form, bind = inp['alias'], inp['args'], inp.get('options', 'debug'), inp.get('bind', 'globals')
    nog = form in NO_GLOBALS_FORMS
    sides = []
    for side in ('direct', 'expression'):
        record, log = [], []
        vals = [build(AT_SPEC[n], record) for n in names]
        g, loc = {}, None
        if nog or bind == 'locals':
            loc = {f'v{i}': v for i, v in enumerate(vals)}
        elif bind == 'mixed':
            g = {f'v{i}': v for i, v in enumerate(vals) if i != 1}
            loc = {f'v{i}': v for i, v in enumerate(vals) if i == 1}
        else:
            g = {f'v{i}': v for i, v in enumerate(vals)}
        options = make_options(form, g, log)
        out = {}
        if side == 'direct':
            try:
                out['result'] = scanon(lib[DOC_ALIASES[alias]](list(vals), options), lib)
            except (runtime.BareScriptRuntimeError, mods['parser'].BareScriptParserError) as exc:
                out['error'] = str(exc)
            except Exception as exc:  # pylint: disable=broad-except
                out['result'] = scanon(exc.return_value if isinstance(exc, value.ValueArgsError) else None, lib)
                if form == 'debug':
                    try:
                        out['failure'] = [str(exc)]
                    except Exception:  # pylint: disable=broad-except
                        out['failure'] = [type(exc).__name__]
            out.setdefault('failure', [])
            out['log'] = list(log)
        else:
            expr = {'function': {'name': alias, 'args': [{'variable': f'v{i}'} for i in range(len(names))]}}
            res = None
            try:
                if form == 'none':
                    res = runtime.evaluate_expression(expr, None, loc)
                else:
                    res = runtime.evaluate_expression(expr, options, loc, True)
                out['result'] = scanon(res, lib)
            except (runtime.BareScriptRuntimeError, mods['parser'].BareScriptParserError) as exc:
                out['error'] = str(exc)
            except Exception as exc:  # pylint: disable=broad-except
                out['hostexc'] = type(exc).__name__
            reports = [ln for ln in log if isinstance(ln, str) and ln.startswith(DEBUG_LINE)]
            out['failure'] = [ln.split(FAILED_WITH, 1)[-1] for ln in reports]
            out['log'] = [ln for ln in log if ln not in reports]
        if alias in NONDET and 'result' in out:
            out['result'] = {'type': result_type(out['result'])}
        out['arguments-after'] = [scanon(v, lib) for v in vals]
        out['calls'] = record
        sides.append(out)
    return sides[0], sides[1]


def alias_type_lists(quick):
    rank = {name: r for name, _, _, r in AT_VALUES}
    every = [name for name, _, _, _ in AT_VALUES]
    pair = [n for n in every if rank[n] <= (1 if quick else 2)]
    triple = [n for n in every if rank[n] <= (0 if quick else 1)]
    lists = [[]] + [[a] for a in every] + [[a, b] for a in pair for b in pair]
    lists += [[a, b, c] for a in triple for b in triple for c in (AT_THIRD[:10] if quick else AT_THIRD)]
    return lists


def stream_alias_all_types(ctx):
    st = ctx.stream('alias-all-types', 'expression mode, the alias clause on operands of EVERY value type: each of the 46 documented built-ins called through '
                                       'evaluate_expression(builtins=True) on argument lists of 0-3 values bound as globals / locals / both - EXHAUSTIVE: no '
                                       f'argument, each of {len(AT_VALUES)} values (null, booleans, numbers incl. -0 / 1e300 / not-a-number / infinity / an enum '
                                       'member, strings incl. empty / padded / astral, a datetime, a date, an aware datetime, arrays incl. empty / nested / a '
                                       'list subclass, objects incl. one with a length member, library functions, a RECORDING host function, regexes), all '
                                       'ordered pairs of 22 (thorough: all 41) of them, all triples of 11 (thorough 22) x 11 (22) x 10 (12) third values of every type - '
                                       'under the forms of the options argument (debug mode mostly: the failed call\'s report is observed; full; none; no log '
                                       'function; empty). Oracle (implementation side; functions / regexes / host values cannot be sent to the Lean driver, '
                                       'whose alias obligations are alias_table_documented / alias_resolves_to_target): the library function the DOCUMENTED '
                                       'table names, called directly on freshly built equal arguments - same result (incl. the sign of a zero), same '
                                       'failure value, same failure text in the debug report, same arguments afterwards, same invocations of a function '
                                       'passed as argument; now / today / rand by result type; non-trivial = every case')
    lists = alias_type_lists(ctx.quick)
    failing = []
    k = 0
    for alias in sorted(DOC_ALIASES):
        for names in lists:
            k += 1
            inp = {'alias': alias, 'target': DOC_ALIASES[alias], 'args': names, 'values': [AT_SPEC[n] for n in names],
                   'options': AT_FORMS[k % len(AT_FORMS)], 'bind': AT_BINDS[k % len(AT_BINDS)]}
            inp['text'] = f'{alias}({", ".join(f"v{i}" for i in range(len(names)))})'
            want, got = alias_types_run(inp)
            if want != got and len(failing) < 4000:
                # a different result first, then different effects on / through the arguments, then a different failure text only
                differs = lambda *keys: any(want.get(x) != got.get(x) for x in keys)      # pylint: disable=unnecessary-lambda-assignment,cell-var-from-loop
                rank = 0 if differs('result', 'error', 'hostexc') else (1 if differs('arguments-after', 'calls', 'log') else 2)
                failing.append((rank, len(names), k, inp))
            st.case([alias, names, inp['options'], inp['bind']], nontrivial=True,
                    tags=['alias:' + alias, f'args:{len(names)}', 'options:' + inp['options'], 'bind:' + inp['bind'], 'reference-only',
                          'failed-call' if got.get('failure') else ('error' if 'error' in got else 'value:' + result_type_s(got.get('result')))] +
                    sorted({'arg:' + AT_TYPE[n] for n in names}))
    for _, _, _, inp in sorted(failing, key=lambda f: f[:3])[:ORDER_REPORT_CAP]:
        # the same call under the plainest configuration, when it fails there too
        plain = dict(inp, options='debug', bind='globals')
        want, got = alias_types_run(plain)
        if want == got:
            plain = inp
            want, got = alias_types_run(inp)
        ctx.witness(ALIAS_TYPES_ORACLE, plain, want, got, note=ALIAS_TYPES_TEXT)
    st.exhaustive = True


def result_type_s(w):
    if isinstance(w, dict) and 'type' in w:
        return w['type']
    if isinstance(w, dict) and 'negative-zero' in w:
        return 'number'
    return result_type(w)


# ---------------------------------------------------------------------------------------------------------------------
# corpus
# ---------------------------------------------------------------------------------------------------------------------

def load_corpus():
    path = os.path.join(fw.VERIF, 'harness', 'corpus', 'C03.jsonl')
    out = []
    if os.path.exists(path):
        with open(path, encoding='utf-8') as fh:
            for ln in fh:
                ln = ln.strip()
                if ln and not ln.startswith('#'):
                    out.append(json.loads(ln))
    return out


def stream_corpus(ctx):
    st = ctx.stream('corpus', 'hand-picked expressions (witnesses of F4 / F13, laziness and order probes, arguments-before-lookup, keywords bound as '
                              'variables, `if` bound as a function, shadowed built-ins, text ordered by code points, booleans beside numbers inside arrays / '
                              'objects, datetime differences with a millisecond part), parsed from text by the implementation; with an expected '
                              'value / log where stated; non-trivial = every entry')
    parser = fw.impl()['parser']
    batch = Batch(ctx, 'corpus', st)
    for entry in load_corpus():
        expr = progen.canon_expr(parser.parse_expression(entry['text']))
        gspecs = pool_specs()
        gspecs.update(entry.get('globals', {}))
        mode = entry.get('mode', 'exec')
        if entry.get('options') in NO_GLOBALS_FORMS:
            gspecs = {}
        elif mode == 'eval':
            for fn in LIB_IN_TREES + ['systemLog']:
                gspecs.setdefault(fn, {'lib': fn})
        case = Case(mode, expr, gspecs, entry.get('locals'), entry.get('builtins', False), tags=['corpus'], optform=entry.get('options', 'full'))
        impl, _ = batch.add(case)
        if 'expect' in entry:
            want = entry['expect']
            got = {k: impl.get(k) for k in want}
            if got != want:
                ctx.witness('corpus-expectation', case.input(), want, got)
    batch.flush()
    st.exhaustive = True


# ---------------------------------------------------------------------------------------------------------------------

# ---------------------------------------------------------------------------------------------------------------------
# script functions called through evaluate_expression with options that never went through execute_script (finding F45)
# ---------------------------------------------------------------------------------------------------------------------

SF_ORACLE = 'expression-calls-script-function'
SF_DEFS = ("function inc(x):\n  return x + 1\nendfunction\n"
           "function pick(a, b, rest...):\n  if a:\n    return b\n  endif\n  return arrayLength(rest)\nendfunction\n"
           "function fact(n):\n  if n < 2:\n    return 1\n  endif\n  return n * fact(n - 1)\nendfunction\n"
           "function noisy(t):\n  systemLog('noisy ' + t)\n  return t\nendfunction\n")
SF_EXPRS = ['inc(2)', 'inc(inc(1)) * 2', 'pick(true, 7)', 'pick(false, 7, 1, 2, 3)', 'fact(5)', "noisy('a') + noisy('b')",
            "if(inc(0), noisy('t'), noisy('f'))", 'inc(1) && fact(3)', "arrayLength(arrayNew(inc(1), fact(3)))", 'mathMax(inc(1), fact(3))']
SF_OPTION_FORMS = ('globals-only', 'globals+debug', 'globals+limit', 'globals+count0', 'after-run')


def sf_run(form, text):
    """Evaluate `text` with the script functions of SF_DEFS in the globals, under options of the given form; returns (value, log)."""
    impl = fw.impl()
    glob, log = {}, []
    run_opts = {'globals': glob, 'logFn': log.append}
    impl['runtime'].execute_script(impl['parser'].parse_script(SF_DEFS), run_opts)
    del log[:]
    if form == 'after-run':
        opts = run_opts                                        # the options object that executed the definitions
    else:
        opts = {'globals': glob, 'logFn': log.append}          # a FRESH options object: no statementCount yet
        if form == 'globals+debug':
            opts['debug'] = True
        elif form == 'globals+limit':
            opts['maxStatements'] = 10000
        elif form == 'globals+count0':
            opts['statementCount'] = 0
    try:
        value = impl['runtime'].evaluate_expression(impl['parser'].parse_expression(text), opts)
    except Exception as exc:  # pylint: disable=broad-except
        value = 'EXC ' + type(exc).__name__
    return value, list(log)


def sf_failure(form, text):
    """The value and log of the expression must be what a script computing `return <text>` gives (the language's value of the call)."""
    impl = fw.impl()
    glob, log = {}, []
    want = impl['runtime'].execute_script(impl['parser'].parse_script(SF_DEFS + 'return ' + text), {'globals': glob, 'logFn': log.append, 'maxStatements': 10000})
    got, got_log = sf_run(form, text)
    if got != want or type(got) is not type(want) or got_log != log:
        return {'expected': [want, log], 'actual': [got, got_log]}
    return None


def stream_script_functions(ctx):
    st = ctx.stream('expr-script-functions', 'calls of SCRIPT functions (bound in the globals by an earlier execute_script run) evaluated through '
                    'evaluate_expression under %d forms of the options object - in particular a FRESH options object that never went through '
                    'execute_script (no statementCount yet; finding F45): value and log must be those of a script computing `return <expr>`. '
                    'Implementation-side oracle: the Lean machine starts every evaluation with a counter; non-trivial = all cases'
                    % len(SF_OPTION_FORMS))
    for form in SF_OPTION_FORMS:
        for text in SF_EXPRS:
            bad = sf_failure(form, text)
            st.case([form, text], nontrivial=True, tags=[form])
            if bad is not None:
                ctx.witness(SF_ORACLE, {'form': form, 'expr': text}, bad['expected'], bad['actual'])
    st.exhaustive = True


def streams(ctx):
    only = os.environ.get('VERIF_C03_STREAMS')            # development aid: run the named streams only (comma separated)
    if only:
        for name in only.split(','):
            globals()['stream_' + name.replace('-', '_')](ctx)
        return
    stream_corpus(ctx)
    stream_matrix(ctx)
    stream_expr_eval(ctx)
    stream_builtins(ctx)
    stream_string_order(ctx)
    stream_value_order(ctx)
    stream_datetime_arith(ctx)
    stream_host_values(ctx)
    stream_host_calls(ctx)
    stream_options_forms(ctx)
    stream_number_edges(ctx)
    stream_repeated_effects(ctx)
    stream_alias_all_types(ctx)
    stream_script_functions(ctx)
    stream_fresh_process(ctx)


def disagreement_known(d, known):
    return False


def search(ctx):
    """Something broke and no oracle has a witness yet: the full matrix and a larger budget of trees, oracles only."""
    env = pool_env()
    names = [n for n, _, _ in POOL]
    quick, ctx.quick = ctx.quick, False
    try:
        for case in matrix_cases(ctx, names):
            _, _, fails, _, _ = check_case(case, env)
            for oracle, want, got in fails:
                ctx.witness(oracle, case.input(), want, got)
            if ctx.witnesses:
                return
    finally:
        ctx.quick = quick
    for s, t in itertools.product(UNI_CHARS + [w for word in UNI_WORDS for w in spellings(word)[:6]], repeat=2):
        case = order_case('var', 'eval', s, t)
        _, _, fails, _, _ = check_case(case)
        if fails:
            for op in REL_OPS + ['+']:
                single = order_case('var', 'eval', s, t, ops=op)
                for oracle, want, got in check_case(single)[2]:
                    ctx.witness(oracle, single.input(), want, got)
        if ctx.witnesses:
            return
    rng = ctx.rng('search')
    # every pair of the value pool, bare and in every order-embedding context; then every millisecond residue
    pool = VAL_SCALARS + VAL_COMPOUNDS
    for x, y in itertools.product(pool, repeat=2):
        for form in ['var'] + VAL_FORMS:
            for op in REL_OPS:
                single = val_case(form, 'exec', x, y, ops=op)
                for oracle, want, got in check_case(single)[2]:
                    ctx.witness(oracle, single.input(), want, got)
        if ctx.witnesses:
            return
    for residue in range(1000):
        for seconds in DT_SECONDS:
            vals = dt_tuple(rng, rng.choice(DT_BASES), seconds, residue)
            for l, r in (('a', 'b'), ('b', 'a')):
                single = Case('eval', progen.binop('-', var(l), var(r)), {k: vals[k] for k in (l, r)})
                for oracle, want, got in check_case(single)[2]:
                    ctx.witness(oracle, single.input(), want, got)
        if ctx.witnesses:
            return
    for i in range(ctx.scale(20000, 200000)):
        case = tree_case(rng, i)
        _, _, fails, _, _ = check_case(case, env if case.mode == 'exec' else None)
        for oracle, want, got in fails:
            ctx.witness(oracle, case.input(), want, got)
        if ctx.witnesses:
            return


def replay(witness):
    oracle = witness.get('oracle')
    if oracle == SF_ORACLE:
        return sf_failure(witness['input']['form'], witness['input']['expr']) is not None
    if oracle == 'total-order-laws':
        return law_failure(witness['input']['law'], witness['input']['strings']) is not None
    if oracle == EDGE_LAW_ORACLE:
        inp = witness['input']
        return edge_law_failure(inp['form'], inp['mode'], inp['x'], inp['y']) is not None
    if oracle == 'order-embedding':
        inp = witness['input']
        return embedding_failure(inp['form'], inp['mode'], inp['x'], inp['y']) is not None
    if oracle == 'datetime-arithmetic-laws':
        inp = witness['input']
        return not dt_law_holds(inp['form'], inp['values'], inp['law'])[0]
    if oracle == 'datetime-difference-nearest-ms':
        return nearest_ms_failure(witness['input']['globals']['a'], witness['input']['globals']['b'])[1] is not None
    if oracle == HISTORY_ORACLE:
        want, got = run_history(witness['input'])
        return want != got
    if oracle == FRESH_ORACLE:
        return fresh_replay(witness['input'])
    if oracle == ALIAS_TYPES_ORACLE:
        want, got = alias_types_run(witness['input'])
        return want != got
    if oracle == SITES_ORACLE:
        return sites_failure(case_of_input(witness['input'])) is not None
    case = case_of_input(witness['input'])
    if oracle == SUBCLASS_ORACLE:
        return plain_failure(case) is not None
    if oracle in ('alias-is-documented-target', 'binding-wins-over-builtin', 'corpus-expectation'):
        env = build_env(case.gspecs)
        locals_ = build_env(case.lspecs) if case.lspecs is not None else None
        impl, _, _ = run_impl(case.mode, case.expr, env, locals_, case.builtins, case.optform)
        want = witness['expected']
        if oracle == 'corpus-expectation':
            return {k: impl.get(k, '<absent>') for k in want} != want
        name = case.expr.get('function', {}).get('name')
        return not same_outcome(name if oracle == 'alias-is-documented-target' else None, want, {k: impl[k] for k in impl if k != 'log'}, None)
    _, _, fails, _, _ = check_case(case)
    return any(name == oracle for name, _, _ in fails)


LEVEL_TEXT = ('Theorems, for expression trees of any depth and size: in the TRACE instance of the evaluator (world = list of calls made, a call '
              'records itself) evalExpr returns the specification value and appends exactly traceOf e - the concatenation, in source order, of '
              'the traces of the sub-expressions selected by the laziness rules, each once (once_left_to_right); && and || return the value of '
              'the left or of the right operand and the right operand contributes nothing exactly when the left decides (and_or_lazy, and '
              'and_or_operand for every world and call-back); if evaluates the condition and only the selected branch (if_lazy); arguments are '
              'evaluated before the function is looked up and an undefined function keeps their effects (args_before_lookup, '
              'undefined_keeps_effects); null/true/false and if ignore bindings (keywords_win). On the concrete operators: a closed table by '
              'operand types for the 12 strict operators (binop_table, binop_numeric_partial), null for every one of the 12x9x9 combinations '
              'outside it (unsupported_is_null), comparisons as sign tests of the one value order, booleans are not numbers. The alias table '
              'generated from EXPRESSION_FUNCTION_MAP on every run is the documented 46-entry table and every alias IS its target function '
              'object (alias_table_documented, by decide), unbound aliases resolve to it and any binding wins. Tied to runtime.py by '
              'differential correspondence (exhaustive operator x type-pair matrix with effect placements, random trees to depth 6, expression '
              'mode with locals/builtins, all-pairs comparison matrices of strings from every Unicode plane / normalisation form / case with the '
              'total-order laws, all-pairs matrices and random twins of values of every type - nested, the same object, booleans beside the numbers '
              '0/1, int beside float, one instant as date / datetime / aware datetime - bare and inside order-embedding arrays / objects, datetime '
              'arithmetic over every millisecond residue with its algebraic laws; host-boundary values - instances of subclasses of int / float / str / '
              'list / dict / datetime, enum members - under every operator and in random trees, with the plain-value equivalence; host callables '
              'declared in 14 ways that record their invocation and fail part-way with 20 exception classes, in expression shapes, random trees and '
              'multi-step histories on re-used options, with the exactly-once-in-order invocation record; every legal form of the options argument '
              'of evaluate_expression with failing built-in calls; the same cases in this process and in two fresh interpreter processes in opposite '
              'orders, over values the host identifies by == / hash; numbers at the edges of the double format - not-a-number, the infinities, -0, subnormals, 2^53, 1e16 .. 1e308 - host-supplied and computed by overflow, under every operator with the text of the results, in all-pairs comparisons bare and embedded with the comparison laws, and in random trees; structurally identical effectful sub-expressions at several sites of one expression - test and branches of if, both operands of every operator, several arguments of one call, nested, 0 .. 1000 sites, also as one shared object of the expression model - with the site-labelled twin; every built-in of the expression library on argument lists of 0-3 values of every type against the documented library function called directly: result, failure value, failure text, arguments afterwards, invocations of function arguments) and by an independent Python reference evaluator run against the implementation on every case.')
LEVEL_NOTE = ('Trusted: Lean kernel; extract.py (alias table + identity flags); the correspondence harness and its reference evaluator. '
              'binop_numeric_partial: / % ** results are exact rationals in the model, IEEE doubles in the code - cases with an inexact step, '
              'non-finite values, stringified datetimes / -0 / exponent-form numbers, regexes are checked against the reference evaluator only. '
              'The trace theorems are about evalExpr instantiated with a recording call-back and trace-blind operators; the real call wrapper '
              'is covered by the generic theorems (and_or_operand, args_before_lookup, keywords_win) and by the correspondence.')
