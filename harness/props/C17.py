"""C17 - includes resolve relative to the including file and run in global scope."""

import contextlib
import functools
import io
import itertools
import json
import os
import re
import shutil
import subprocess
import sys
import tempfile

import fw

ID = 'C17'
LEVEL = 'proof'
LEAN_TARGETS = ['BareProofs.C17']
DRIVER = 'drv_c17'
DRIVER_ROOT = 'Drv.C17'
GEN = ['Regex']
THEOREMS = [
    'C17.url_regex_source', 'C17.resolve_spec_partial', 'C17.resolve_url', 'C17.resolve_abs', 'C17.resolve_abs_clean',
    'C17.resolve_rel_url_base', 'C17.resolve_rel_path_base', 'C17.resolve_rel_path_base_clean',
    'C17.resolve_system', 'C17.resolve_matches_spec',
    'C17.run_spec', 'C17.include_fetch_order', 'C17.include_fetch_prefix', 'C17.include_global_scope',
    'C17.includer_continues', 'C17.return_ends_only_include', 'C17.urlfn_restored', 'C17.include_errors',
    'C17.include_error_step', 'C17.no_fetch_fn', 'C17.gas_stable',
]
ASSUMPTIONS = [
    'pathlib.PurePosixPath.__str__, posixpath.dirname/join/splitroot and str.rfind are modelled for CPython 3.12 on POSIX only '
    '(separator "/", no drive, no altsep); tied by the exhaustive small-alphabet url stream',
    'CPython re: ^[a-z]+: is re-implemented by hand (greedy run of ASCII lower-case letters, then ":"); pattern text tied by Gen/Regex',
    'the include machine abstracts every statement other than include/return to an opaque global-state effect; '
    'parse_script is abstracted to "text is a script | text is broken" (the parser itself is C06/C10)',
    'gas bounds the include nesting depth; results are gas-independent once the run does not end in outOfGas (theorem gas_stable)',
]
TRUSTED = ['the tree renderer of harness/props/C17.py (abstract include tree -> BareScript texts + virtual file system)',
           'the program renderer rx_render and the reference rx_expected of the reexec stream (abstract program with loops, jumps, functions and '
           'versioned locations -> BareScript texts; the property statement unrolled along the control flow). The Lean include machine has no '
           'loops (theorem include_fetch_order covers every execution of an include statement; re-execution is tied on the implementation side only)',
           'the world / command-line renderer (mc_render, McGen) and the script-by-script reference of the mcli stream, the session driver of the '
           'reuse stream: each script / run is one run of the Lean include machine, but the command line (argparse, working directory, several '
           'main() calls in one process) and the options dict shared between runs are host-only and tied on the implementation side only',
           'the host configuration forms of the hostcfg stream (callables and strings that are false in a truth test, str subclasses, debug mode, absent / '
           'rejecting log functions, the exception zoo HOST_THROWS): the Lean machine sees a prefix string, a root location and "this fetch throws"; '
           'that the outcome does not depend on WHICH object the host passed is tied on the implementation side only (oracle spec_obs)']

CORPUS = os.path.join(fw.VERIF, 'harness', 'corpus', 'C17.jsonl')
BIG = 100000


# ---------------------------------------------------------------------------------------------------------------------
# The property's own reading of resolution (independent of the Lean model and of options.py; no re, no pathlib)
# ---------------------------------------------------------------------------------------------------------------------

def spec_is_url(s):
    i = 0
    while i < len(s) and 'a' <= s[i] <= 'z':
        i += 1
    return 0 < i < len(s) and s[i] == ':'


def spec_segments(p):
    return [x for x in p.split('/') if x not in ('', '.')]


def spec_dir_part(s):
    i = len(s)
    while i > 0 and s[i - 1] != '/':
        i -= 1
    return s[:i]


def spec_resolve(base, ref):
    """URL / absolute path: unchanged (absolute paths in normal form); else directory of base joined with ref."""
    if spec_is_url(ref):
        return ref
    if ref.startswith('/'):
        lead = len(ref) - len(ref.lstrip('/'))
        return ('//' if lead == 2 else '/') + '/'.join(spec_segments(ref))
    if spec_is_url(base):
        return spec_dir_part(base) + ref
    d = spec_dir_part(base)
    if d.strip('/') != '':
        d = d.rstrip('/')
    segs = spec_segments(ref)
    rel = '/'.join(segs) if segs else '.'
    if d == '':
        return rel
    return d + rel if d.endswith('/') else d + '/' + rel


def spec_location(system_prefix, self_loc, url, system):
    if system and system_prefix is not None:
        return spec_resolve(system_prefix, url)
    if self_loc is None:
        return url
    return spec_resolve(self_loc, url)


def spec_events(case):
    """Lazy depth-first walk written from the property statement (explicit stack: cyclic trees never end). Yields
    ('fetch', loc) / ('exec', tag) and finally ('end', outcome). The statement budget is not part of the property: the
    caller compares prefixes when the run was cut by it."""
    files = case['files']
    prefix = case['systemPrefix']
    # a frame: [items, index of the next item, entries of the include statement being processed, index of the next entry, location]
    stack = [[case['root']['items'], 0, None, 0, case['urlFn']]]
    while stack:
        frame = stack[-1]
        items, i, entries, j, self_loc = frame
        if entries is not None:
            if j >= len(entries):
                frame[2] = None
                continue
            frame[3] = j + 1
            url, system = entries[j]
            loc = spec_location(prefix, self_loc, url, system)
            if not case['fetch']:
                yield ('end', {'kind': 'includeFailed', 'url': loc})
                return
            yield ('fetch', loc)
            f = files.get(loc)
            if f is None or f['kind'] in ('missing', 'throws'):
                yield ('end', {'kind': 'includeFailed', 'url': loc})
                return
            if f['kind'] == 'broken':
                yield ('end', {'kind': 'parseError', 'url': loc})
                return
            stack.append([f['items'], 0, None, 0, loc])          # the included script runs now, to its end or its return
            continue
        if i >= len(items) or items[i] == 'ret':
            stack.pop()                                           # end of this script only: its includer goes on
            continue
        frame[1] = i + 1
        it = items[i]
        if it == 'nop':
            continue
        if 'stmt' in it:
            yield ('exec', it['stmt'])
        else:
            frame[2], frame[3] = it['inc'], 0
    yield ('end', {'kind': 'ok'})


# ---------------------------------------------------------------------------------------------------------------------
# url stream
# ---------------------------------------------------------------------------------------------------------------------

URL_BASES = [
    'http://h/a/b.bare', 'http://h/a/', 'http://h', 'http://h/', 'https://h/a/b.bare?x=1', 'https://h/a/b.bare?x=/y/z', 'http://h/a/b.bare#f/g',
    'file:///r/d/m.bare', 'file:m.bare', 'file:', 'x:', 'a:b', 'HTTP://H/a/b.bare', 'Http://h/a/b', 'hTTp://h/a', 'h2tp://h/a/b', 'ht-tp://h/a/b',
    ':bare-include:/', ':bare-include:/markdownUp.bare', '://x/y', 'http:/', 'http//x/y', ' http://h/a/b',
    '/r/d/m.bare', '/r/d/', '/r/d', '/m.bare', '/', '//', '///', '//r/m.bare', '//r//d//m.bare', '/r//d/m.bare', '/r/d//', '/r/./d/../m.bare',
    'r/d/m.bare', 'r/m.bare', 'm.bare', '', '.', '..', './m.bare', '../m.bare', 'r/d/', 'r//', 'a b/c d.bare', '/r/d.e/f', 'r/.', 'r/..',
    '\u00e9/\u00fc.bare', 'C:/x/y.bare', 'c:/x/y.bare', 'c:\\x\\y.bare',
]
URL_REFS = [
    'http://o/p/q.bare', 'https://o/q.bare?z=1', 'file:///q.bare', 'x:', 'a:b', 'ab:', 'z:/', 'HTTP://O/q.bare', 'Http://o/q', 'h2tp://o/q', 'ht-tp://o',
    '1a:b', ':x', 'a :b', 'http', 'http:', 'http:/', '{:x',
    '/q.bare', '/p/q.bare', '/', '//', '///', '//q.bare', '///q.bare', '////q', '/p//q.bare', '/p/./q.bare', '/p/../q.bare', '/p/q/', '/p/q//', '/.', '/..', '/./',
    '//./q', '// /q', '/ ', '/p q/r.bare',
    'q.bare', 'p/q.bare', './q.bare', '../q.bare', '../../q.bare', 'p/../q.bare', 'p/./q.bare', 'p//q.bare', 'p/q/', 'p/q//', './', '.', '..', '', './.', './/',
    './/q', 'p q/r s.bare', ' q.bare', 'q.bare ', "it's.bare", '...', '.q', 'q.', 'p/.../q', '\u00e9/q.bare', 'q.bare?x=/y', '#f', '?x', 'a/b:c', 'a.b:c',
]


def url_cases(ctx):
    for b, r in itertools.product(URL_BASES, URL_REFS):
        yield b, r, 'grid'
    # exhaustive small strings over the alphabet the rules are sensitive to
    alpha = '/.a:'
    nb, nr = ctx.scale(3, 4), ctx.scale(4, 5)
    words = ['']
    levels = [['']]
    for _ in range(max(nb, nr)):
        levels.append([w + c for w in levels[-1] for c in alpha])
    bases = [w for lv in levels[:nb + 1] for w in lv]
    refs = [w for lv in levels[:nr + 1] for w in lv]
    del words
    for b in bases:
        for r in refs:
            yield b, r, 'small'
    rng = ctx.rng('url')
    pool = '//..::abzAZ09 -_?#%\u00e9'
    for _ in range(ctx.scale(4000, 120000)):
        b = ''.join(rng.choice(pool) for _ in range(rng.randint(0, 12)))
        r = ''.join(rng.choice(pool) for _ in range(rng.randint(0, 10)))
        if rng.random() < 0.3:
            b = rng.choice(['http://', 'file:', 'x:', '/', '//', '']) + b
        if rng.random() < 0.3:
            r = rng.choice(['http://', 'q:', '/', '//', '///', './', '../']) + r
        yield b, r, 'random'


def impl_resolve(base, ref):
    try:
        return fw.impl()['options'].url_file_relative(base, ref)
    except Exception as exc:  # pylint: disable=broad-except
        return {'error': type(exc).__name__}


def url_tags(base, ref, kind):
    tags = [kind]
    if spec_is_url(ref):
        tags.append('ref:url')
    elif ref.startswith('/'):
        tags.append('ref:abs')
    else:
        tags.append('ref:rel/base:url' if spec_is_url(base) else 'ref:rel/base:path')
    return tags


def stream_url(ctx, extra=()):
    st = ctx.stream('url', 'url_file_relative(base, ref): hand-picked grid (URL bases incl. query/fragment/file:/upper-case scheme, path bases '
                           'absolute/relative/dots/double and trailing slashes/empty; refs URL/absolute/relative/empty/spaces) + ALL strings over '
                           '"/.a:" up to length 3x4 (quick) / 4x5 (thorough) + random; non-trivial = ref is not a URL (something is computed)')
    cases = [(b, r, 'corpus') for b, r in extra] + list(url_cases(ctx))
    resps = ctx.driver.batch([{'op': 'resolve', 'file': b, 'url': r} for b, r, _ in cases])
    for (b, r, kind), resp in zip(cases, resps):
        st.case([b, r], nontrivial=not spec_is_url(r), tags=url_tags(b, r, kind))
        impl = impl_resolve(b, r)
        ctx.compare('url', [b, r], impl, resp.get('out', resp))
        if resp.get('spec') != resp.get('out'):
            ctx.disagree('url', [b, r], resp.get('out'), resp.get('spec'), note='Lean mirror vs Lean spec (theorem resolve_matches_spec)')
        want = spec_resolve(b, r)
        if impl != want:
            ctx.witness('resolve-spec', [b, r], want, impl)
        # metamorphic: what was resolved is a location of its own - resolving it again, against anything, leaves a URL alone
        # and an absolute path in normal form alone (a path is normalised once: '/r/d/.' -> '/r/d')
        if isinstance(impl, str) and (spec_is_url(impl) or impl.startswith('/')):
            again = impl_resolve('http://elsewhere/x/y.bare', impl)
            twice = impl_resolve('/other/place.bare', again) if isinstance(again, str) else again
            stable = again == impl if spec_is_url(impl) else (isinstance(again, str) and spec_segments(again) == spec_segments(impl))
            if not stable or twice != again:
                ctx.witness('resolve-idempotent', ['http://elsewhere/x/y.bare', impl], impl, again)


# ---------------------------------------------------------------------------------------------------------------------
# include stream: abstract include trees rendered as real BareScript texts over a virtual file system
# ---------------------------------------------------------------------------------------------------------------------

ROOTS = [None, '/r/main.bare', 'r/main.bare', 'main.bare', 'http://h/a/main.bare', 'https://h/main.bare?x=1/2', 'file:///r/m.bare',
         'HTTP://H/a/main.bare', '/r/dir/', '//r/main.bare', './r/./main.bare', '/r//d/main.bare', 'http://h', '']
PREFIXES = [None, None, 'https://sys.example/lib/', '/usr/lib/bare/', '/usr/lib/bare/x', ':bare-include:/', 'sysdir/', 'sys']
BROKEN_LINES = ['x = 1 +', 'if a:', 'endfunction', 'foo bar baz', 'a = (1', 'for x in:', "b = 'unterminated", 'endif', 'jumpif (x lbl', 'function ():']
THROWS = ['ValueError', 'OSError', 'KeyError', 'BareScriptRuntimeError', 'SystemExit']


def quote_url(url, system):
    if system:
        return '<' + url + '>'
    return "'" + url.replace("'", "\\'") + "'"


class TreeGen:
    """One random include tree. Locations of included files are computed with the property's reading (spec_location),
    never with the implementation or the model."""

    def __init__(self, rng, max_depth=4, max_fan=3):
        self.rng = rng
        self.max_depth = max_depth
        self.max_fan = max_fan
        self.files = {}
        self.counter = 0
        self.fid = 0
        self.p_fail = rng.choice([0, 0, 0, 0.04, 0.12, 0.3])
        self.p_ret = rng.choice([0, 0.1, 0.3])
        self.prefix = rng.choice(PREFIXES)
        self.root_loc = rng.choice(ROOTS)
        self.fetch = rng.random() > 0.03
        self.done_locs = []      # completed files addressable by an absolute reference (diamonds)
        self.cycle = rng.random() < 0.06
        self.max_statements = rng.choice([BIG] * 6 + [rng.randint(1, 40)]) if not self.cycle else rng.randint(5, 80)

    def fresh(self):
        self.counter += 1
        return f'n{self.counter}.bare'

    def make_ref(self, ancestors):
        rng = self.rng
        n = self.fresh()
        k = rng.randint(0, 2)
        system = rng.random() < 0.25
        # deliberate re-use of an existing location (diamond) or of an ancestor (cycle) through an absolute reference
        if self.cycle and ancestors and rng.random() < 0.5:
            loc = rng.choice(ancestors)
            if loc is not None and (spec_is_url(loc) or (loc.startswith('/') and spec_resolve('', loc) == loc)) and '>' not in loc:
                return loc, False
        if self.done_locs and rng.random() < 0.08:
            return rng.choice(self.done_locs), False
        forms = [
            (6, n), (4, f'sub{k}/{n}'), (3, f'./{n}'), (3, f'../{n}'), (1, f'd{k}//{n}'), (1, f'd{k}/./{n}'), (1, f'a b/{n}'), (1, f"it's/{n}"),
            (1, f'../../x/{n}'), (1, f'sub{k}/{n}/'), (1, f' {n}'),
            (3, f'/abs{k}/{n}'), (1, f'//net/{n}'), (1, f'/abs//{k}/./{n}'), (1, f'///t/{n}'), (1, f'/{n}/'),
            (3, f'http://h{k}/p/{n}'), (1, f'https://h/{n}?v=1/2'), (1, f'file:///f/{n}'), (1, f'x:{n}'),
            (1, f'HTTP://H/{n}'), (1, f'1a:{n}'), (1, f'Ab:{n}'),
        ]
        total = sum(w for w, _ in forms)
        x = rng.random() * total
        for w, ref in forms:
            x -= w
            if x < 0:
                break
        if system:
            ref = ref.replace('>', '')
        if rng.random() < 0.01:
            ref = ''
        return ref, system

    def gen_items(self, self_loc, depth, ancestors):
        """-> (items, lines): abstract items and the BareScript lines rendering them."""
        rng = self.rng
        self.fid += 1
        fid = self.fid
        items, lines = [], []
        n_chunks = rng.randint(0, 5) if depth else rng.randint(1, 6)
        fan_left = self.max_fan if depth < self.max_depth else 0
        idx = 0
        last_plain_inc = False
        plan = [rng.random() for _ in range(n_chunks)]
        if depth == 0 and not any(0.4 <= r < 0.85 for r in plan) and rng.random() < 0.9:
            plan.insert(rng.randint(0, len(plan)), 0.5)          # the root script includes something, almost always
        for r in plan:
            idx += 1
            if r < 0.4 or fan_left == 0 and r < 0.85:
                kind = rng.choice('LS')
                tag = f'{kind}{fid}.{idx}'
                items.append({'stmt': tag})
                lines.append(rng.choice(['', '  ', '    ']) + (f"systemLog('{tag}')" if kind == 'L' else f"trace = trace + '{tag};'"))
                last_plain_inc = False
            elif r < 0.85:
                n_ent = rng.randint(1, min(fan_left, 3))
                fan_left -= n_ent
                entries = []
                for _ in range(n_ent):
                    chain = ancestors + [self_loc]
                    for _attempt in range(20):
                        ref, system = self.make_ref(chain)
                        loc = spec_location(self.prefix, self_loc, ref, system)
                        open_file = loc in chain or (loc in self.files and self.files[loc] is None)
                        if self.cycle or not open_file:
                            break
                    else:
                        ref, system = 'http://fallback/' + self.fresh(), False
                        loc = ref
                    entries.append([ref, system])
                    self.gen_file(loc, depth + 1, chain)
                inc_lines = []
                for ref, system in entries:
                    if inc_lines and rng.random() < 0.3:
                        inc_lines.append(rng.choice(['', '# comment between include lines', '   ']))
                    inc_lines.append(rng.choice(['', '  ']) + 'include' + rng.choice([' ', '  ', '\t']) + quote_url(ref, system) + rng.choice(['', ' ']))
                if rng.random() < 0.25:
                    # the include statement sits in a function body that is called at once
                    name = f'incFn{fid}x{idx}'
                    items.extend(['nop', 'nop', {'inc': entries}])
                    body = ['    ' + ln.strip() if ln.strip() else ln for ln in inc_lines]
                    after = []
                    if rng.random() < 0.5:
                        tag = f'L{fid}.{idx}f'
                        items.append({'stmt': tag})
                        after = [f"    systemLog('{tag}')"]
                    lines.extend([f'function {name}():'] + body + after + ['endfunction', f'{name}()'])
                    last_plain_inc = False
                else:
                    if last_plain_inc:
                        # two include statements in a row need something between them, or they merge into one
                        items.append('nop')
                        lines.append(f'sep{fid}x{idx} = 1')
                    items.append({'inc': entries})
                    lines.extend(inc_lines)
                    last_plain_inc = True
            elif r < 0.85 + 0.15 * (self.p_ret / 0.3 if self.p_ret else 0):
                items.append('ret')
                lines.append(rng.choice(['return', "return 'v'", '  return 1 + 1', 'return  ']))
                last_plain_inc = False
            else:
                items.append('nop')
                lines.append(rng.choice([f'unused{fid} = {idx}', f'lbl{fid}x{idx}:', f"objectNew('a', {idx})"]))
                last_plain_inc = False
        return items, lines

    def gen_file(self, loc, depth, ancestors):
        rng = self.rng
        if loc in self.files or loc in ancestors:
            return
        r = rng.random()
        if r < self.p_fail:
            kind = rng.choice(['missing', 'missing-entry', 'throws', 'broken', 'broken'])
            if kind == 'missing-entry':
                return                                   # not in the file map at all
            if kind == 'broken':
                good = [f"systemLog('never{self.counter}')", f"include 'never{self.counter}.bare'", 'ok = 1', '# c', '']
                pre = [rng.choice(good) for _ in range(rng.randint(0, 4))]
                post = [rng.choice(good) for _ in range(rng.randint(0, 2))]
                self.files[loc] = {'kind': 'broken', 'text': rng.choice(['\n', '\r\n']).join(pre + [rng.choice(BROKEN_LINES)] + post)}
            elif kind == 'throws':
                self.files[loc] = {'kind': 'throws', 'exc': rng.choice(THROWS)}
            else:
                self.files[loc] = {'kind': 'missing'}
            return
        self.files[loc] = None                            # reserve (cycles through the same location stop here)
        items, lines = self.gen_items(loc, depth, ancestors)
        self.files[loc] = {'kind': 'text', 'items': items, 'text': rng.choice(['\n', '\n', '\r\n']).join(lines) + rng.choice(['', '\n'])}
        if (spec_is_url(loc) or (loc.startswith('/') and spec_resolve('', loc) == loc)) and "'" not in loc:
            self.done_locs.append(loc)

    def build(self):
        items, lines = self.gen_items(self.root_loc, 0, [])
        files = {k: v for k, v in self.files.items() if v is not None}
        return {'files': files, 'root': {'items': items, 'text': '\n'.join(lines)}, 'urlFn': self.root_loc, 'systemPrefix': self.prefix,
                'maxStatements': self.max_statements, 'fetch': self.fetch, 'acyclic': not self.cycle}


def model_request(case, gas=None):
    files = []
    for loc, f in sorted(case['files'].items()):
        files.append([loc, {'text': f['items']} if f['kind'] == 'text' else f['kind']])
    ms = case['maxStatements']
    return {'op': 'run', 'files': files, 'root': case['root']['items'], 'urlFn': case['urlFn'], 'systemPrefix': case['systemPrefix'],
            'maxStatements': ms, 'fetch': case['fetch'], 'spec': bool(case.get('acyclic')) and bool(case['fetch']),
            'gas': gas if gas is not None else (min(ms, 400) + 2 if 0 < ms < BIG else len(files) + 3)}


class _Thrown(Exception):
    pass


class _StrRaises(Exception):
    """an exception whose text cannot be produced"""
    def __str__(self):
        raise RuntimeError('cannot describe this failure')


class _StrNone(Exception):
    """an exception whose text is not a string"""
    def __str__(self):
        return None


class _ReprRaises(Exception):
    def __str__(self):
        raise TypeError('no text')

    def __repr__(self):
        raise TypeError('no repr')


class _FormatRaises(Exception):
    def __format__(self, spec):
        raise ValueError('cannot be formatted')


class _StrRaisesBase(BaseException):
    """not an Exception, and producing its text raises another non-Exception"""
    def __str__(self):
        raise GeneratorExit()


class _Unprintable:
    def __repr__(self):
        raise RuntimeError('no repr')
    __str__ = __repr__


# what a host fetch function may throw (the Lean model knows only "throws"): ordinary I/O failures, exceptions that are not Exceptions,
# exceptions whose text cannot be produced (str() raises / returns a non-string / format() raises / an argument has no repr), and the
# library's OWN error classes - with texts that look like the errors of the include statement for ANOTHER location (decoys)
HOST_THROWS = ['FileNotFoundError', 'PermissionError', 'IsADirectoryError', 'TimeoutError', 'UnicodeDecodeError', 'URLError', 'HTTPError',
               'AssertionError', 'RecursionError', 'MemoryError', 'ExceptionGroup', 'ExceptionClass',
               'KeyboardInterrupt', 'GeneratorExit', 'StopIteration', 'StopAsyncIteration', 'SystemExit',
               'StrRaises', 'StrNone', 'ReprRaises', 'FormatRaises', 'StrRaisesBase', 'ArgsUnprintable',
               'BareScriptRuntimeError', 'BareScriptRuntimeErrorDecoy', 'BareScriptRuntimeErrorBudget', 'BareScriptParserError',
               'BareScriptParserErrorDecoy', 'ValueArgsError']
UNPRINTABLE_THROWS = ('StrRaises', 'StrNone', 'ReprRaises', 'FormatRaises', 'StrRaisesBase', 'ArgsUnprintable')


def make_exc(name):
    m = fw.impl()
    rt = m['runtime']
    basic = {'ValueError': ValueError('fetch failed'), 'OSError': OSError(2, 'No such file'), 'KeyError': KeyError('k'),
             'BareScriptRuntimeError': rt.BareScriptRuntimeError('inner'), 'SystemExit': SystemExit(3)}
    if name in basic:
        return basic[name]
    if name in ('URLError', 'HTTPError'):
        import urllib.error                                   # pylint: disable=import-outside-toplevel
        return urllib.error.URLError('no route') if name == 'URLError' else urllib.error.HTTPError('http://h/x', 404, 'Not Found', {}, None)
    make = {
        'FileNotFoundError': lambda: FileNotFoundError(2, 'No such file or directory', 'x.bare'),
        'PermissionError': lambda: PermissionError(13, 'Permission denied'),
        'IsADirectoryError': lambda: IsADirectoryError(21, 'Is a directory'),
        'TimeoutError': lambda: TimeoutError('timed out'),
        'UnicodeDecodeError': lambda: UnicodeDecodeError('utf-8', b'\xff\xfe', 0, 1, 'invalid start byte'),
        'AssertionError': AssertionError,
        'RecursionError': lambda: RecursionError('maximum recursion depth exceeded'),
        'MemoryError': MemoryError,
        'ExceptionGroup': lambda: ExceptionGroup('several', [OSError(5, 'I/O error'), _StrRaises()]),
        'ExceptionClass': lambda: ValueError,              # `raise ValueError` - a class, not an instance
        'KeyboardInterrupt': KeyboardInterrupt,
        'GeneratorExit': GeneratorExit,
        'StopIteration': lambda: StopIteration('done'),
        'StopAsyncIteration': StopAsyncIteration,
        'StrRaises': _StrRaises, 'StrNone': _StrNone, 'ReprRaises': _ReprRaises, 'FormatRaises': lambda: _FormatRaises('x'),
        'StrRaisesBase': _StrRaisesBase,
        'ArgsUnprintable': lambda: Exception(_Unprintable()),
        'BareScriptRuntimeErrorDecoy': lambda: rt.BareScriptRuntimeError('Include of "decoy/elsewhere.bare" failed'),
        'BareScriptRuntimeErrorBudget': lambda: rt.BareScriptRuntimeError('Exceeded maximum script statements (7)'),
        'BareScriptParserError': lambda: m['parser'].BareScriptParserError('Syntax error', 'x = 1 +', 8, 1),
        'BareScriptParserErrorDecoy': lambda: m['parser'].BareScriptParserError('Syntax error', 'x = 1 +', 8, 1, 'Included from "decoy/elsewhere.bare"'),
        'ValueArgsError': lambda: m['value'].ValueArgsError('url', None),
    }.get(name)
    return make() if make is not None else _Thrown(name)


class _FalsyFn:
    """a host callable that is false in a truth test (bool() is False) - still a function that was configured"""
    def __init__(self, fn):
        self.fn = fn

    def __call__(self, *args):
        return self.fn(*args)

    def __bool__(self):
        return False


class _EmptyFn(_FalsyFn):
    """a host callable that is false in a truth test because it is an empty container (len() == 0)"""
    __bool__ = None

    def __len__(self):
        return 0


def safe_text(exc):
    """str(exc), also for the exceptions whose text cannot be produced"""
    try:
        text = str(exc)
        return text if isinstance(text, str) else repr(text)
    except BaseException as inner:  # pylint: disable=broad-except
        return f'<no text: {type(inner).__name__}>'


def host_fn(fn, form):
    return _FalsyFn(fn) if form == 'falsy' else _EmptyFn(fn) if form == 'empty' else fn


def run_impl(case):
    """Execute the real implementation on the rendered texts. -> observation dict"""
    m = fw.impl()
    parser, runtime, options_mod = m['parser'], m['runtime'], m['options']
    events = []
    bad_requests = []
    files = case['files']
    # host-only configuration (absent: the plain one): {'debug': bool, 'log': 'record' | 'absent' | 'rejects-debug' | 'falsy' | 'empty',
    # 'fetchFn' / 'urlFn': 'plain' | 'falsy' | 'empty' (callables that are false in a truth test), 'wrap': 'str' | 'strsub'}
    host = case.get('host') or {}
    debug = bool(host.get('debug'))
    log_form = host.get('log', 'record')
    wrap = _StrSub if host.get('wrap') == 'strsub' else str

    def fetch_fn(request):
        if not isinstance(request, dict) or set(request) != {'url'}:
            bad_requests.append(repr(request))
        url = request['url']
        events.append(['fetch', url])
        f = files.get(url)
        if f is None or f['kind'] == 'missing':
            return None
        if f['kind'] == 'throws':
            raise make_exc(f.get('exc', 'ValueError'))
        return f['text']

    def log_fn(text):
        if debug and isinstance(text, str) and text.startswith('BareScript:'):
            # the lines of debug mode (linter, failed calls) are C18's business - but a log sink that rejects them must not matter here
            if log_form == 'rejects-debug':
                raise _Thrown('the log sink rejects debug lines')
            return
        events.append(['exec', text])

    globals_ = {'trace': ''}
    options = {'globals': globals_, 'logFn': host_fn(log_fn, log_form), 'maxStatements': case['maxStatements'],
               'systemPrefix': case['systemPrefix'] if case['systemPrefix'] is None else wrap(case['systemPrefix'])}
    if log_form == 'absent':
        del options['logFn']
    if debug:
        options['debug'] = True
    if case['systemPrefix'] is None and len(case['files']) % 2:
        del options['systemPrefix']                       # key absent and key = None are the same configuration
    if case['fetch']:
        options['fetchFn'] = host_fn(fetch_fn, host.get('fetchFn'))
    if case['urlFn'] is not None:
        options['urlFn'] = host_fn(functools.partial(options_mod.url_file_relative, wrap(case['urlFn'])), host.get('urlFn'))
    outcome = {'kind': 'ok'}
    extra = {}
    try:
        script = parser.parse_script(case['root']['text'])
    except Exception as exc:  # pylint: disable=broad-except
        return {'events': [], 'outcome': {'kind': 'root-does-not-parse', 'msg': str(exc)}, 'trace': '', 'statementCount': None, 'extra': {}}
    url_fn_before = options.get('urlFn')
    try:
        runtime.execute_script(script, options)
    except parser.BareScriptParserError as exc:
        msg = str(exc)
        first, _, rest = msg.partition('\n')
        if first.startswith('Included from "') and first.endswith('"'):
            outcome = {'kind': 'parseError', 'url': first[len('Included from "'):-1]}
            extra = {'rest': rest, 'error': exc.error, 'line': exc.line, 'column_number': exc.column_number, 'line_number': exc.line_number}
        else:
            outcome = {'kind': 'other', 'class': 'BareScriptParserError', 'msg': msg}
    except runtime.BareScriptRuntimeError as exc:
        msg = str(exc)
        if msg.startswith('Include of "') and msg.endswith('" failed'):
            outcome = {'kind': 'includeFailed', 'url': msg[len('Include of "'):-len('" failed')]}
        elif msg == f'Exceeded maximum script statements ({case["maxStatements"]})':
            outcome = {'kind': 'exceeded'}
        else:
            outcome = {'kind': 'other', 'class': 'BareScriptRuntimeError', 'msg': msg}
    except BaseException as exc:  # pylint: disable=broad-except
        outcome = {'kind': 'other', 'class': type(exc).__name__, 'msg': safe_text(exc)}
    if bad_requests:
        extra['bad_requests'] = bad_requests[:3]
    if options.get('urlFn') is not url_fn_before:
        extra['urlFn_changed'] = True
    return {'events': events, 'outcome': outcome, 'trace': globals_.get('trace'), 'statementCount': options.get('statementCount'), 'extra': extra}


def split_tags(tags):
    return [t for t in tags if t.startswith('L')], ''.join(t + ';' for t in tags if t.startswith('S'))


def model_obs(resp):
    """Driver response -> the same observation shape as run_impl (log-kind statements are events, set-kind go to the global)."""
    if 'events' not in resp:
        return {'bad': resp}
    evs = [e for e in resp['events'] if e[0] == 'fetch' or e[1].startswith('L')]
    _, trace = split_tags(resp['log'])
    return {'events': evs, 'outcome': resp['outcome'], 'trace': trace, 'statementCount': resp['statementCount']}


def spec_obs(case, impl):
    """The property's expectation for this case (statement budget aside). -> (expected dict, ok?)"""
    want_events, want_tags = [], []
    no_log = (case.get('host') or {}).get('log') == 'absent'      # no log function configured: the fetch requests are all that is observed
    n_impl = len(impl['events'])
    n_trace = len(impl['trace'] or '')
    budget_out = impl['outcome'].get('kind') == 'exceeded' and 0 < case['maxStatements'] < BIG
    outcome = None
    steps = n_s = 0
    cap = 20 * (n_impl + n_trace + 50)
    for ev in spec_events(case):
        if ev[0] == 'end':
            outcome = ev[1]
            break
        if ev[0] == 'fetch' or (ev[1].startswith('L') and not no_log):
            want_events.append(list(ev))
        if ev[0] == 'exec':
            want_tags.append(ev[1])
        # enough to decide (cyclic trees go on for ever): the implementation stopped earlier than this
        steps += 1
        if len(want_events) > n_impl + 2 and (n_s > n_trace + 2 or steps > cap):
            break
        if ev[0] == 'exec' and ev[1].startswith('S'):
            n_s += len(ev[1]) + 1
    _, trace = split_tags(want_tags)
    if budget_out:
        # the budget is C09's business: here only "what ran is an initial part of what the property prescribes"
        ok = impl['events'] == want_events[:n_impl] and impl['trace'] is not None and trace.startswith(impl['trace'])
        return {'events_prefix_of': want_events, 'outcome': 'exceeded (budget), any prefix'}, ok
    want = {'events': want_events, 'outcome': outcome if outcome is not None else 'the tree goes on'}
    want['trace'] = trace
    got = {'events': impl['events'], 'outcome': impl['outcome'], 'trace': impl['trace']}
    return want, want == got


def standalone_parse_error(text):
    parser = fw.impl()['parser']
    try:
        parser.parse_script(text)
    except parser.BareScriptParserError as exc:
        return {'rest': str(exc), 'error': exc.error, 'line': exc.line, 'column_number': exc.column_number, 'line_number': exc.line_number}
    return None


LEN_BUCKETS = [(64, '0-64'), (104, '65-104'), (120, '105-120'), (256, '121-256'), (1000, '257-1000')]


def _system_under_base(case):
    """Is a system include statement reachable in a file that has a location of its own (a base a wrong reading could resolve against)?"""
    todo, seen = [(case['urlFn'], case['root']['items'])], set()
    while todo:
        self_loc, items = todo.pop()
        for it in items:
            if isinstance(it, dict) and 'inc' in it:
                for url, system in it['inc']:
                    if system and self_loc is not None:
                        return True
                    loc = spec_location(case['systemPrefix'], self_loc, url, system)
                    f = case['files'].get(loc)
                    if loc not in seen and f is not None and f['kind'] == 'text':
                        seen.add(loc)
                        todo.append((loc, f['items']))
    return False


def case_tags(case, impl):
    tags = ['outcome:' + impl['outcome'].get('kind', '?')]
    locs = list(case['files'])
    depth = 0
    # depth of the tree actually walked = longest chain is not recorded; use number of fetches as size proxy
    nf = sum(1 for e in impl['events'] if e[0] == 'fetch')
    tags.append('fetches:' + ('0' if nf == 0 else '1-3' if nf <= 3 else '4-9' if nf <= 9 else '10+'))
    root = case['urlFn']
    tags.append('root:' + ('none' if root is None else 'url' if spec_is_url(root) else 'path'))
    tags.append('prefix:' + ('none' if case['systemPrefix'] is None else 'empty-string' if case['systemPrefix'] == '' else 'set'))
    if 'url' in impl['outcome']:
        n = len(impl['outcome']['url'])
        tags.append('named-location-length:' + next((b for lim, b in LEN_BUCKETS if n <= lim), '1001+'))
    host = case.get('host')
    if host:
        tags += [f'host:{k}={v}' for k, v in sorted(host.items()) if v not in (False, 'plain', 'str', None) and not (k == 'log' and v == 'record')]
        tags += sorted({'throws:' + f['exc'] for f in case['files'].values() if f['kind'] == 'throws' and f.get('exc') in HOST_THROWS})
        if case['systemPrefix'] == '' and any(e[0] == 'fetch' for e in impl['events']):
            tags.append('empty-prefix/' + ('system-include-under-a-base' if _system_under_base(case) else 'other'))
    if any(spec_is_url(x) for x in locs) and any(not spec_is_url(x) for x in locs):
        tags.append('mixed-url-and-path-locations')
    if 'function incFn' in case['root']['text'] or any('function incFn' in (f.get('text') or '') for f in case['files'].values()):
        tags.append('include-in-function')
    del depth

    def nesting(items, self_loc, level):
        best = level
        if level >= 6:
            return best
        for it in items:
            if it == 'ret':
                break
            if isinstance(it, dict) and 'inc' in it:
                for url, system in it['inc']:
                    f = case['files'].get(spec_location(case['systemPrefix'], self_loc, url, system))
                    if f is not None and f['kind'] == 'text':
                        best = max(best, nesting(f['items'], spec_location(case['systemPrefix'], self_loc, url, system), level + 1))
                    else:
                        best = max(best, level + 1)
        return best
    d = nesting(case['root']['items'], case['urlFn'], 0)
    tags.append('depth:' + (str(d) if d < 6 else '6+'))
    return tags


def check_case(ctx, st, case, resp, origin):
    impl = run_impl(case)
    nontrivial = any(e[0] == 'fetch' for e in impl['events'])
    st.case({'root': case['root']['text'], 'urlFn': case['urlFn'], 'prefix': case['systemPrefix'], 'files': sorted(case['files'])[:6]},
            nontrivial=nontrivial, tags=case_tags(case, impl) + [origin])
    # 1. correspondence with the Lean mirror
    mobs = model_obs(resp)
    if (case.get('host') or {}).get('log') == 'absent' and 'events' in mobs:
        mobs['events'] = [e for e in mobs['events'] if e[0] == 'fetch']
    iobs = {k: impl[k] for k in ('events', 'outcome', 'trace', 'statementCount')}
    ctx.compare('include', _slim(case), iobs, mobs)
    # 1b. Lean mirror vs Lean spec on this case (theorem run_spec), when the run was not cut by the budget
    if 'specEvents' in resp and resp['outcome']['kind'] not in ('exceeded', 'outOfGas'):
        if resp['events'] != resp['specEvents'] or resp['outcome'] != resp['specOutcome']:
            ctx.disagree('include', _slim(case), {'events': resp['events'], 'outcome': resp['outcome']},
                         {'events': resp['specEvents'], 'outcome': resp['specOutcome']}, note='Lean mirror vs Lean spec (theorem run_spec)')
    # 2. the property's oracle on the implementation
    want, ok = spec_obs(case, impl)
    if not ok:
        ctx.witness('include-tree', _slim(case), want, {'events': impl['events'], 'outcome': impl['outcome'], 'trace': impl['trace']})
        return
    if impl['outcome']['kind'] == 'parseError':
        f = case['files'].get(impl['outcome']['url'])
        alone = standalone_parse_error(f['text']) if f and f['kind'] == 'broken' else None
        got = {k: impl['extra'].get(k) for k in ('rest', 'error', 'line', 'column_number', 'line_number')}
        if alone != got:
            ctx.witness('include-parse-error-names-text', _slim(case), alone, got)
    if impl['extra'].get('bad_requests'):
        ctx.witness('fetch-request-shape', _slim(case), "{'url': <resolved>}", impl['extra']['bad_requests'])
    if impl['extra'].get('urlFn_changed'):
        ctx.witness('urlfn-restored', _slim(case), 'options["urlFn"] unchanged after the run', 'changed')


def _slim(case):
    """The case without the files nothing refers to (keeps replay files small)."""
    keep = set()
    todo = [(case['urlFn'], case['root']['items'])]
    while todo:
        self_loc, items = todo.pop()
        for it in items:
            if isinstance(it, dict) and 'inc' in it:
                for url, system in it['inc']:
                    loc = spec_location(case['systemPrefix'], self_loc, url, system)
                    if loc not in keep:
                        keep.add(loc)
                        f = case['files'].get(loc)
                        if f is not None and f['kind'] == 'text':
                            todo.append((loc, f['items']))
    out = dict(case)
    out['files'] = {k: v for k, v in case['files'].items() if k in keep}
    return out


def load_corpus():
    url_pairs, inc_cases = [], []
    if os.path.exists(CORPUS):
        with open(CORPUS, encoding='utf-8') as fh:
            for ln in fh:
                ln = ln.strip()
                if not ln:
                    continue
                d = json.loads(ln)
                if d.get('stream') == 'url':
                    url_pairs.append((d['base'], d['ref']))
                elif d.get('stream') == 'include':
                    inc_cases.append(d['case'])
    return url_pairs, inc_cases


def stream_include(ctx, corpus_cases):
    st = ctx.stream('include', 'random include trees (depth<=4, <=3 entries per file) rendered as BareScript texts in a virtual file system: URL and '
                               'path roots, nested dirs, absolute/relative/system refs, merged and separated include statements, includes inside '
                               'function bodies, return statements, missing/throwing/broken files, diamonds, cycles under a budget; executed with '
                               'execute_script; compared event-by-event (fetch requests and log lines in one sequence), global "trace" variable, '
                               'outcome, statementCount; non-trivial = at least one fetch request was made')
    cases = [('corpus', c) for c in corpus_cases]
    rng = ctx.rng('include')
    for _ in range(ctx.scale(4000, 60000)):
        cases.append(('random', TreeGen(rng).build()))
    resps = ctx.driver.batch([model_request(c) for _, c in cases])
    for (origin, case), resp in zip(cases, resps):
        check_case(ctx, st, case, resp, origin)


# ---------------------------------------------------------------------------------------------------------------------
# cli stream: bare.main() over real files in a temporary directory, with packaged includes
# ---------------------------------------------------------------------------------------------------------------------

def _cwd():
    """The working directory of this process - a safe one if the implementation left the process in a directory that is gone."""
    try:
        return os.getcwd()
    except OSError:
        os.chdir(fw.VERIF)
        return fw.VERIF


def run_cli(argv):
    """bare.main(argv) -> (stdout lines, exit status); the working directory of the process is the caller's again afterwards"""
    bare = fw.impl()['bare']
    out = io.StringIO()
    code = None
    cwd = _cwd()
    try:
        with contextlib.redirect_stdout(out):
            try:
                bare.main(argv)
            except SystemExit as exc:
                code = exc.code
    finally:
        try:
            moved = os.getcwd() != cwd
        except OSError:
            moved = True
        if moved:
            os.chdir(cwd)
    return out.getvalue().splitlines(), code


def cli_tree(rng, tmp, relative_invocation):
    """A random tree whose locations are real paths below tmp (path refs only; system refs go to packaged includes)."""
    g = TreeGen(rng, max_depth=3)
    g.prefix = ':bare-include:' + os.sep
    g.fetch = True
    g.cycle = False
    g.max_statements = BIG
    main = os.path.join(tmp, 'a', 'b', 'c', 'proj', 'main.bare')      # deep enough for three levels of '../'
    g.root_loc = os.path.relpath(main, _cwd()) if relative_invocation else main
    for name in ('args.bare', 'unittest.bare', 'pager.bare'):
        g.files[g.prefix + name] = {'kind': 'text', 'items': [], 'text': None, 'packaged': True}
    g.files[g.prefix + 'nosuch.bare'] = {'kind': 'missing'}
    orig = g.make_ref

    def make_ref(ancestors):
        while True:
            ref, system = orig(ancestors)
            if system:
                return rng.choice(['args.bare', 'unittest.bare', 'pager.bare'] * 4 + ['nosuch.bare']), True
            if not spec_is_url(ref) and not ref.startswith('/') and "'" not in ref and ref.strip() == ref and ref != '' and '../..' not in ref:
                return ref, False
    g.make_ref = make_ref
    return g.build()


def inside(path, tmp):
    return os.path.realpath(path).startswith(os.path.realpath(tmp) + os.sep)


def materialise(case, tmp):
    todo = [(loc, f['text']) for loc, f in case['files'].items() if not f.get('packaged') and f['kind'] in ('text', 'broken')]
    todo.insert(0, (case['urlFn'], "trace = ''\n" + case['root']['text'] + "\nsystemLog('TRACE=' + trace)\n"))
    for path, text in todo:
        if not inside(path, tmp):
            raise OSError(f'{path} would be written outside {tmp}')
        os.makedirs(os.path.dirname(path) or '.', exist_ok=True)
        with open(path, 'w', encoding='utf-8', newline='') as fh:
            fh.write(text)


HAND_FILES = {
    'main.bare': "systemLog('m1')\ninclude 'sub/a.bare'\nsystemLog('m2 ' + shared + ' ' + (argsParse != null))\ninclude 'lib/b.bare'\nsystemLog('m3')\n",
    'sub/a.bare': "systemLog('a1')\ninclude <args.bare>\ninclude 'deep/c.bare'\ninclude '../lib/b.bare'\nshared = 'from-a'\nreturn\nsystemLog('never')\n",
    'sub/deep/c.bare': "systemLog('c1')\ninclude '../../lib/b.bare'\n",
    'lib/b.bare': "systemLog('b')\n",
    'miss.bare': "include 'sub/x/../nothere.bare'\n",
    'brk.bare': "systemLog('k1')\ninclude 'sub/bad.bare'\nsystemLog('never')\n",
    'sub/bad.bare': "ok = 1\nx = 1 +\n",
    'fn.bare': "function incl():\n    include 'sub/bad.bare'\nendfunction\nincl()\nsystemLog('never')\n",
}
# the same with long names (SCALE axis on the location length, real files: a component is at most 255 bytes, a path 4096)
LONG_DIR = '/'.join(['descriptive-directory-name-' + c * n for c, n in (('a', 13), ('b', 33), ('c', 73))])
LONG_NAMES = {'short': 'bad.bare', 'name-100': 'n' * 95 + '.bare', 'name-250': 'm' * 245 + '.bare'}
for _key, _name in LONG_NAMES.items():
    HAND_FILES[f'long-{_key}.bare'] = f"systemLog('k1')\ninclude '{LONG_DIR}/mid.bare'\nsystemLog('never')\n"
    HAND_FILES[f'longmiss-{_key}.bare'] = f"systemLog('k1')\ninclude '{LONG_DIR}/{_key}/../{_name}x'\nsystemLog('never')\n"
    HAND_FILES[f'{LONG_DIR}/{_name}'] = "ok = 1\nx = 1 +\n"
HAND_FILES[f'{LONG_DIR}/mid.bare'] = "systemLog('mid')\n"               # rewritten per case: includes the broken file of that case


def cli_hand(tmp):
    """Hand-made CLI cases -> [(name, expected, actual)] (actual cut to the compared part)."""
    proj = os.path.join(tmp, 'hand')
    for rel, text in HAND_FILES.items():
        path = os.path.join(proj, rel)
        os.makedirs(os.path.dirname(path), exist_ok=True)
        with open(path, 'w', encoding='utf-8') as fh:
            fh.write(text)
    out = []
    for relative in (False, True):
        path = os.path.join(proj, 'main.bare')
        if relative:
            path = os.path.relpath(path, _cwd())
        lines, code = run_cli([path])
        # the packaged args.bare defines argsParse in the global scope of the run; b.bare is reached along three different chains
        out.append((f'tree{"-relative" if relative else ""}',
                    {'stdout': ['m1', 'a1', 'c1', 'b', 'b', 'm2 from-a true', 'b', 'm3'], 'exit': 0}, {'stdout': lines, 'exit': code or 0}))
    main = os.path.join(proj, 'miss.bare')
    lines, code = run_cli([main])
    out.append(('missing', {'stdout': [main + ':', f'Include of "{os.path.join(proj, "sub/x/../nothere.bare")}" failed'], 'exit': 1},
                {'stdout': lines, 'exit': code}))
    for name in ('brk.bare', 'fn.bare'):
        main = os.path.join(proj, name)
        lines, code = run_cli([main])
        head = (['k1'] if name == 'brk.bare' else []) + [main + ':', f'Included from "{os.path.join(proj, "sub/bad.bare")}"', 'Syntax error, line number 2:']
        out.append((name, {'stdout': head, 'exit': 1}, {'stdout': lines[:len(head)], 'exit': code}))
    for key, name in LONG_NAMES.items():
        main = os.path.join(proj, f'long-{key}.bare')
        with open(os.path.join(proj, LONG_DIR, 'mid.bare'), 'w', encoding='utf-8') as fh:
            fh.write(f"systemLog('mid')\ninclude '{name}'\n")
        lines, code = run_cli([main])
        head = ['k1', 'mid', main + ':', f'Included from "{os.path.join(proj, LONG_DIR, name)}"', 'Syntax error, line number 2:']
        out.append((f'long-{key}', {'stdout': head, 'exit': 1}, {'stdout': lines[:len(head)], 'exit': code}))
        main = os.path.join(proj, f'longmiss-{key}.bare')
        lines, code = run_cli([main])
        out.append((f'longmiss-{key}', {'stdout': ['k1', main + ':', f'Include of "{os.path.join(proj, LONG_DIR, key, "..", name + "x")}" failed'], 'exit': 1},
                    {'stdout': lines, 'exit': code}))
    return out


def stream_cli(ctx):
    st = ctx.stream('cli', 'bare.main([file]) over real files in a temporary directory (absolute and cwd-relative invocation), nested relative '
                           'includes and `include <...>` of packaged includes through the CLI fetcher; hand cases incl. broken / missing files '
                           'below three long directory names with file names of 8 / 100 / 250 characters (resolved locations of 200-450 '
                           'characters in the error lines); stdout lines compared with the model; '
                           'non-trivial = at least one include executed')
    rng = ctx.rng('cli')
    base_tmp = os.environ.get('VERIF_TMP') or None
    tmp = tempfile.mkdtemp(prefix='verif_c17_', dir=base_tmp)
    try:
        for name, want, got in cli_hand(tmp):
            st.case(['hand', name], nontrivial=True, tags=['hand', name])
            if want != got:
                ctx.witness('cli-include-tree', {'cli': name}, want, got)

        # random trees over real files
        cases = []
        for i in range(ctx.scale(100, 800)):
            sub = os.path.join(tmp, f't{i}')
            os.makedirs(sub)
            case = cli_tree(rng, sub, relative_invocation=(i % 3 == 0))
            cases.append(case)
        resps = ctx.driver.batch([model_request(c) for c in cases])
        for case, resp in zip(cases, resps):
            try:
                materialise(case, tmp)
            except OSError as exc:
                ctx.notes.append(f'cli: could not materialise a tree: {exc}')
                continue
            lines, code = run_cli([case['urlFn']])
            # model: log lines, then the TRACE line if the run completed
            mlog, mtrace = split_tags(resp['log'])
            kind = resp['outcome']['kind']
            if kind == 'ok':
                want = mlog + ['TRACE=' + mtrace]
                want_code = 0
            elif kind == 'includeFailed':
                want = mlog + [case['urlFn'] + ':', f'Include of "{resp["outcome"]["url"]}" failed']
                want_code = 1
            else:
                want = mlog + [case['urlFn'] + ':', f'Included from "{resp["outcome"]["url"]}"']
                want_code = 1
                lines = lines[:len(want)]
            # a top-level return of the root script ends the run before the TRACE line
            root_returns = 'ret' in case['root']['items']
            if kind == 'ok' and root_returns:
                want = mlog
                want_code = None
            nf = sum(1 for e in resp['events'] if e[0] == 'fetch')
            st.case({'root': case['root']['text'], 'files': len(case['files'])}, nontrivial=nf > 0,
                    tags=['random', 'outcome:' + kind, 'relative-invocation' if not os.path.isabs(case['urlFn']) else 'absolute-invocation'])
            ok = ctx.compare('cli', {'root': case['root']['text'], 'files': {k: v.get('text') for k, v in case['files'].items()}},
                             {'stdout': lines, 'exit': code if want_code is not None else None}, {'stdout': want, 'exit': want_code})
            if not ok:
                # the model is exact here (no budget), so a disagreement is a property failure on the implementation
                swant, sok = spec_obs(case, {'events': [], 'outcome': {'kind': '?'}, 'trace': ''})
                del sok
                ctx.witness('cli-include-tree', {'cli': 'random', 'tmp': tmp, 'root': case['root']['text'], 'urlFn': case['urlFn'],
                                                 'files': {k: v.get('text') for k, v in case['files'].items()}},
                            {'stdout': want, 'exit': want_code, 'spec': swant}, {'stdout': lines, 'exit': code})
    finally:
        shutil.rmtree(tmp, ignore_errors=True)


# ---------------------------------------------------------------------------------------------------------------------
# reexec stream: include statements that are executed MORE THAN ONCE (loops, backward jumps, functions called again, the
# same file named by several statements) over a virtual file system whose content CHANGES between fetches
# ---------------------------------------------------------------------------------------------------------------------
#
# Abstract program of one script (a list of items):
#   {'stmt': tag}                          'L…' -> systemLog('tag') ; 'S…' -> trace = trace + 'tag;' (global scope only)
#   {'inc': [[ref, system], …]}            one include statement (one line per entry)
#   {'loop': kind, 'n': n, 'var': v, 'body': items}   kind 'while' | 'for' (n rounds) ; 'jump' | 'whilebreak' (do-while: max(1,n) rounds);
#                                          v counts the rounds from 0
#   {'when': [k…], 'var': v, 'body': items}   if v == k || … : body endif   (v: a loop counter of the same frame)
#   {'def': name, 'body': items} / {'call': name}     function definition (top level of a file) / call statement in the same file
#   {'set': loc, 'v': i} / {'set': loc, 'var': v, 'mod': m}   host function vfsSet(loc, i | v % m): the script rewrites the location
#   'ret'                                  return
# A location holds a list of versions (text / missing / throws / broken); a fetch returns the current one and, in mode
# 'counter', moves on to the next (cyclically) - the counter-stamped text of a versioned host fetchFn.
# The reference (rx_expected) is the property statement unrolled along the control flow: every EXECUTION of an include
# statement fetches each of its entries from the location resolved against the file containing the statement, in order,
# runs the text returned by THAT fetch to its end or its return, in global scope, and then the includer goes on.

class _RxRet(Exception):
    pass


class _RxEnd(Exception):
    def __init__(self, outcome):
        super().__init__(outcome)
        self.outcome = outcome


class _RxCap(Exception):
    pass


RX_LOOPS = ['while', 'for', 'jump', 'whilebreak']


def rx_rounds(kind, n):
    return n if kind in ('while', 'for') else max(1, n)


def rx_expected(case, cap=1500):
    """-> {'events', 'outcome', 'trace', 'stats'} prescribed by the property, or None if the unrolled run is longer than cap."""
    files = case['files']
    prefix = case['systemPrefix']
    counter = case['mode'] == 'counter'
    cur = {loc: 0 for loc in files}
    events, trace, env, funcs = [], [], {}, {}
    per_frame, per_stmt_frames, per_loc_stmts, texts_of_loc = {}, {}, {}, {}
    frames = [0]

    def emit(ev):
        events.append(ev)
        if len(events) + len(trace) > cap:
            raise _RxCap()

    def new_frame():
        frames[0] += 1
        return frames[0]

    def run(items, self_loc, frame):
        for it in items:
            if it == 'ret':
                raise _RxRet()
            if 'stmt' in it:
                if it['stmt'].startswith('L'):
                    emit(['exec', it['stmt']])
                else:
                    trace.append(it['stmt'])
                    if len(events) + len(trace) > cap:
                        raise _RxCap()
            elif 'inc' in it:
                key = id(it)
                per_frame[(frame, key)] = per_frame.get((frame, key), 0) + 1
                per_stmt_frames.setdefault(key, set()).add(frame)
                for url, system in it['inc']:
                    loc = spec_location(prefix, self_loc, url, system)
                    emit(['fetch', loc])
                    per_loc_stmts.setdefault(loc, set()).add(key)
                    f = files.get(loc)
                    ver = None
                    if f is not None:
                        v = cur[loc] % len(f['versions'])
                        ver = f['versions'][v]
                        texts_of_loc.setdefault(loc, set()).add(v)
                        if counter:
                            cur[loc] = (v + 1) % len(f['versions'])
                    if ver is None or ver['kind'] in ('missing', 'throws'):
                        raise _RxEnd({'kind': 'includeFailed', 'url': loc})
                    if ver['kind'] == 'broken':
                        raise _RxEnd({'kind': 'parseError', 'url': loc})
                    try:
                        run(ver['items'], loc, new_frame())       # the text of THIS fetch, now, to its end or its return
                    except _RxRet:
                        pass
            elif 'loop' in it:
                for k in range(rx_rounds(it['loop'], it['n'])):
                    env[it['var']] = k
                    run(it['body'], self_loc, frame)
            elif 'when' in it:
                if env.get(it['var']) in it['when']:
                    run(it['body'], self_loc, frame)
            elif 'def' in it:
                funcs[it['def']] = it['body']
            elif 'call' in it:
                try:
                    run(funcs[it['call']], self_loc, new_frame())
                except _RxRet:
                    pass
            elif 'set' in it:
                cur[it['set']] = it['v'] if 'v' in it else env[it['var']] % it['mod']

    outcome = {'kind': 'ok'}
    try:
        run(case['root']['items'], case['urlFn'], 0)
    except _RxRet:
        pass
    except _RxEnd as end:
        outcome = end.outcome
    except _RxCap:
        return None
    stats = {
        'reexec-same-frame': any(n > 1 for n in per_frame.values()),
        'reexec-new-frame': any(len(s) > 1 for s in per_stmt_frames.values()),
        'loc-by-several-stmts': any(len(s) > 1 for s in per_loc_stmts.values()),
        'content-changed': any(len(s) > 1 for s in texts_of_loc.values()),
        'refetched': len([e for e in events if e[0] == 'fetch']) > len({e[1] for e in events if e[0] == 'fetch'}),
    }
    return {'events': events, 'outcome': outcome, 'trace': ''.join(t + ';' for t in trace), 'stats': stats}


def rx_render(items, indent=0):
    """Abstract items -> BareScript lines (the trusted renderer of this stream; deterministic)."""
    pad = '    ' * indent
    lines = []
    for it in items:
        if it == 'ret':
            lines.append(pad + 'return')
        elif 'stmt' in it:
            tag = it['stmt']
            lines.append(pad + (f"systemLog('{tag}')" if tag.startswith('L') else f"trace = trace + '{tag};'"))
        elif 'inc' in it:
            lines.extend(pad + 'include ' + quote_url(ref, system) for ref, system in it['inc'])
        elif 'loop' in it:
            kind, n, v = it['loop'], it['n'], it['var']
            body = rx_render(it['body'], indent + 1)
            if kind == 'while':
                lines += [f'{pad}{v} = 0', f'{pad}while {v} < {n}:'] + body + [f'{pad}    {v} = {v} + 1', f'{pad}endwhile']
            elif kind == 'for':
                lines += [f'{pad}for e{v}, {v} in arrayNew({", ".join(str(10 + k) for k in range(n))}):'] + body + [f'{pad}endfor']
            elif kind == 'jump':
                lines += [f'{pad}{v} = 0', f'{pad}lbl{v}:'] + body + [f'{pad}    {v} = {v} + 1', f'{pad}jumpif ({v} < {n}) lbl{v}']
            else:
                lines += [f'{pad}{v} = 0', f'{pad}while true:'] + body + [f'{pad}    {v} = {v} + 1', f'{pad}    if {v} >= {n}:', f'{pad}        break',
                                                                           f'{pad}    endif', f'{pad}endwhile']
        elif 'when' in it:
            cond = ' || '.join(f'{it["var"]} == {k}' for k in it['when']) or 'false'
            lines += [f'{pad}if {cond}:'] + rx_render(it['body'], indent + 1) + [f'{pad}endif']
        elif 'def' in it:
            lines += [f'{pad}function {it["def"]}():'] + rx_render(it['body'], indent + 1) + [f'{pad}endfunction']
        elif 'call' in it:
            lines.append(f'{pad}{it["call"]}()')
        elif 'set' in it:
            arg = str(it['v']) if 'v' in it else f'{it["var"]} % {it["mod"]}'
            lines.append(f"{pad}vfsSet('" + it['set'].replace('\\', '\\\\').replace("'", "\\'") + f"', {arg})")
    return lines


def rx_finish(case):
    """Render every text of a case built from abstract items (root and all versions)."""
    case['root']['text'] = '\n'.join(rx_render(case['root']['items']))
    for f in case['files'].values():
        for ver in f['versions']:
            if ver['kind'] == 'text':
                ver['text'] = '\n'.join(rx_render(ver['items'])) + '\n'
    return case


class LoopGen:
    """One random program with re-executed include statements. Locations come from the property's reading (spec_location)."""

    def __init__(self, rng, max_depth=None):
        self.rng = rng
        self.max_depth = max_depth if max_depth is not None else rng.choice([1, 1, 2, 2, 3])
        self.files = {}
        self.fid = 0
        self.counter = 0
        self.versions_left = rng.choice([4, 8, 12, 16])
        self.prefix = rng.choice(PREFIXES)
        self.root_loc = rng.choice(ROOTS)
        self.mode = rng.choice(['counter', 'counter', 'counter', 'static'])
        self.p_fail = rng.choice([0, 0, 0, 0.08, 0.2])
        self.done_locs = []        # completed locations that an absolute reference / URL names from anywhere
        self.multi = []            # completed locations with more than one version
        self.max_statements = rng.choice([BIG] * 11 + [rng.randint(3, 120)])

    def fresh_ref(self):
        rng = self.rng
        self.counter += 1
        n = f'p{self.counter}.bare'
        k = rng.randint(0, 1)
        system = rng.random() < 0.2
        forms = [(6, n), (4, f'sub{k}/{n}'), (2, f'./{n}'), (3, f'../{n}'), (1, f'd{k}//{n}'), (1, f'a b/{n}'), (1, f"it's/{n}"),
                 (4, f'/abs{k}/{n}'), (1, f'//net/{n}'), (4, f'http://h{k}/p/{n}'), (1, f'https://h/{n}?v=1/2'), (1, f'file:///f/{n}'), (1, f'x:{n}')]
        x = rng.random() * sum(w for w, _ in forms)
        for w, ref in forms:
            x -= w
            if x < 0:
                break
        return ref, system

    def loop_kind(self, depth, in_fn):
        # a `for` loop keeps its array and length in variables named by the parser (__bareScriptValues<n>, __bareScriptLength<n>, n counted per
        # text): at the top level of two texts they are the SAME globals, so an included text's top-level `for` disturbs the `for` of its
        # includer that is still running. That is "include runs in global scope" at work, not a fault of the include mechanism: `for` loops
        # are generated only where their variables cannot meet - in function bodies (locals) and at the top level of the root script.
        return self.rng.choice(RX_LOOPS if in_fn or depth == 0 else [k for k in RX_LOOPS if k != 'for'])

    def gen_inc(self, self_loc, depth, var, local_refs):
        """-> items: optionally a vfsSet of the included location, then the include statement"""
        rng = self.rng
        entries, pre = [], []
        for _ in range(rng.choice([1, 1, 1, 2, 2, 3])):
            r = rng.random()
            if self.versions_left <= 0 and (local_refs or self.done_locs):
                r = r * 0.5 if self.done_locs else 0.0
            if local_refs and r < 0.35:
                ref, system = rng.choice(local_refs)              # the same file named again by another statement of this file
            elif self.done_locs and r < 0.5:
                ref, system = rng.choice(self.done_locs), False   # … or of another file (absolute reference: no cycle, it is complete)
            else:
                for _attempt in range(20):
                    ref, system = self.fresh_ref()
                    loc = spec_location(self.prefix, self_loc, ref, system)
                    if loc not in self.files and loc != self.root_loc:
                        break
                else:
                    self.counter += 1
                    ref, system = f'http://fallback/p{self.counter}.bare', False
                    loc = ref
                self.gen_file(loc, depth + 1)
                local_refs.append([ref, system])
            loc = spec_location(self.prefix, self_loc, ref, system)
            entries.append([ref, system])
            nver = len(self.files[loc]['versions']) if self.files.get(loc) else 0
            if nver > 1 and rng.random() < (0.45 if self.mode == 'static' else 0.2):
                if var is not None and rng.random() < 0.7:
                    pre.append({'set': loc, 'var': var, 'mod': rng.randint(2, nver)})
                else:
                    pre.append({'set': loc, 'v': rng.randrange(nver)})
        return pre + [{'inc': entries}]

    def gen_items(self, self_loc, depth, in_fn=False, loop_depth=0, var=None, funcs=None, local_refs=None, top=True, want_inc=False):
        rng = self.rng
        if funcs is None:
            funcs, local_refs = [], []                            # a new file: its own functions, its own references
        tagbase = 't'
        items = []
        can_inc = depth < self.max_depth
        n_slots = rng.randint(1, 3) if (depth or not top) else rng.randint(2, 5)
        plan = [rng.random() for _ in range(n_slots)]
        if want_inc and can_inc and not any(0.3 <= r < 0.6 for r in plan):
            plan.insert(rng.randint(0, len(plan)), 0.45)
        for r in plan:
            self.counter += 1
            idx = self.counter
            if r < 0.3 or (0.3 <= r < 0.6 and (not can_inc or self.versions_left <= 0 and not local_refs and not self.done_locs)):
                kind = 'L' if in_fn or rng.random() < 0.6 else 'S'
                items.append({'stmt': f'{kind}{tagbase}.{idx}'})
            elif r < 0.6:
                items.extend(self.gen_inc(self_loc, depth, var, local_refs))
            elif r < 0.78:
                if loop_depth >= 2:
                    items.append({'stmt': f'L{tagbase}.{idx}'})
                    continue
                v = f'i{idx}'
                body = self.gen_items(self_loc, depth, in_fn, loop_depth + 1, v, funcs, local_refs, top=False, want_inc=rng.random() < 0.85)
                if funcs and rng.random() < 0.3:
                    body.insert(rng.randint(0, len(body)), {'call': rng.choice(funcs)})
                items.append({'loop': self.loop_kind(depth, in_fn), 'n': rng.choice([0, 1, 2, 2, 2, 3, 3, 4]), 'var': v, 'body': body})
            elif r < 0.84:
                if var is None:
                    items.append({'stmt': f'L{tagbase}.{idx}'})
                    continue
                body = self.gen_items(self_loc, depth, in_fn, loop_depth, var, funcs, local_refs, top=False, want_inc=rng.random() < 0.7)
                items.append({'when': sorted(rng.sample(range(4), rng.randint(0, 3))), 'var': var, 'body': body})
            elif r < 0.93:
                if top and not in_fn:
                    name = f'fn{idx}'
                    body = self.gen_items(self_loc, depth, True, 0, None, list(funcs), local_refs, top=False, want_inc=rng.random() < 0.85)
                    items.append({'def': name, 'body': body})
                    funcs.append(name)
                    # called again and again: a new frame every time
                    if rng.random() < 0.5:
                        items.extend({'call': name} for _ in range(rng.randint(1, 3)))
                    elif loop_depth < 2:
                        self.counter += 1
                        items.append({'loop': self.loop_kind(depth, in_fn), 'n': rng.randint(1, 3), 'var': f'i{self.counter}', 'body': [{'call': name}]})
                elif funcs:
                    items.append({'call': rng.choice(funcs)})
                else:
                    items.append({'stmt': f'L{tagbase}.{idx}'})
            elif r < 0.96:
                if self.multi:
                    loc = rng.choice(self.multi)
                    items.append({'set': loc, 'v': rng.randrange(len(self.files[loc]['versions']))})
                else:
                    items.append({'stmt': f'L{tagbase}.{idx}'})
            else:
                if depth or in_fn or rng.random() < 0.3:
                    items.append('ret')
                else:
                    items.append({'stmt': f'L{tagbase}.{idx}'})
        return items

    def gen_file(self, loc, depth):
        rng = self.rng
        self.files[loc] = None                                    # open: nothing may refer to it until it is complete
        nver = min(rng.choice([1, 1, 2, 2, 2, 3, 3]), max(1, self.versions_left))
        versions = []
        for i in range(nver):
            self.versions_left -= 1
            if rng.random() < self.p_fail * (1 if i else 0.4):
                kind = rng.choice(['missing', 'throws', 'broken'])
                if kind == 'broken':
                    versions.append({'kind': 'broken', 'text': f"systemLog('Lnever{self.counter}')\n" + rng.choice(BROKEN_LINES) + '\n'})
                elif kind == 'throws':
                    versions.append({'kind': 'throws', 'exc': rng.choice(THROWS)})
                else:
                    versions.append({'kind': 'missing'})
            else:
                versions.append({'kind': 'text', 'items': self.gen_items(loc, depth)})
        self.files[loc] = {'versions': versions}
        if (spec_is_url(loc) or (loc.startswith('/') and spec_resolve('', loc) == loc)) and "'" not in loc:
            self.done_locs.append(loc)
        if nver > 1:
            self.multi.append(loc)

    def build(self):
        items = self.gen_items(self.root_loc, 0, want_inc=True)
        return rx_finish({'kind': 'reexec', 'files': self.files, 'root': {'items': items}, 'urlFn': self.root_loc, 'systemPrefix': self.prefix,
                          'maxStatements': self.max_statements, 'mode': self.mode})


def rx_hand_cases():
    """The smallest members of the family, one per way of executing an include statement again."""
    def leaf(tag, *more):
        return {'kind': 'text', 'items': [{'stmt': tag}] + list(more)}
    out = []
    for root_loc, ref, loc in [('/r/main.bare', 'gen/part.bare', '/r/gen/part.bare'), ('http://h/a/main.bare', 'part.bare', 'http://h/a/part.bare'),
                               (None, 'part.bare', 'part.bare')]:
        start = len(out)
        inc = {'inc': [[ref, False]]}
        three = {'versions': [leaf('Lv0'), leaf('Sv1'), leaf('Lv2')]}
        for kind in RX_LOOPS:
            # the same statement, three rounds, the text differs every time
            out.append({'files': {loc: three}, 'root': {'items': [{'loop': kind, 'n': 3, 'var': 'i1', 'body': [inc, {'stmt': 'Lafter'}]}, inc, {'stmt': 'Ltail'}]},
                        'mode': 'counter'})
            # the script rewrites the location before every round
            out.append({'files': {loc: three}, 'mode': 'static',
                        'root': {'items': [{'loop': kind, 'n': 3, 'var': 'i1', 'body': [{'set': loc, 'var': 'i1', 'mod': 3}, inc, {'stmt': 'Safter'}]}]}})
            # the text does not change: still one fetch and one execution per round
            out.append({'files': {loc: {'versions': [leaf('Lsame')]}}, 'mode': 'counter',
                        'root': {'items': [{'loop': kind, 'n': 2, 'var': 'i1', 'body': [inc]}]}})
            # the second round cannot be fetched / does not parse
            for bad in ({'kind': 'missing'}, {'kind': 'throws', 'exc': 'OSError'}, {'kind': 'broken', 'text': 'x = 1 +\n'}):
                out.append({'files': {loc: {'versions': [leaf('Lv0'), bad]}}, 'mode': 'counter',
                            'root': {'items': [{'loop': kind, 'n': 3, 'var': 'i1', 'body': [inc, {'stmt': 'Lafter'}]}]}})
            # only in some rounds; inside a function that is called from the loop
            out.append({'files': {loc: three}, 'mode': 'counter',
                        'root': {'items': [{'loop': kind, 'n': 4, 'var': 'i1', 'body': [{'when': [0, 2, 3], 'var': 'i1', 'body': [inc]}, {'stmt': 'Lr'}]}]}})
            out.append({'files': {loc: three}, 'mode': 'counter',
                        'root': {'items': [{'def': 'f1', 'body': [inc, {'stmt': 'Lf'}]}, {'loop': kind, 'n': 3, 'var': 'i1', 'body': [{'call': 'f1'}]}]}})
            # the loop is in an included file (its own base), the inner file changes and returns early
            inner = {'versions': [leaf('Lq0', 'ret', {'stmt': 'Lnever'}), leaf('Sq1')]}
            mid = {'versions': [{'kind': 'text', 'items': [{'loop': kind, 'n': 3, 'var': 'i2', 'body': [{'inc': [['sub/q.bare', False]]}]}, {'stmt': 'Lmid'}]}]}
            out.append({'files': {loc: mid, spec_resolve(loc, 'sub/q.bare'): inner}, 'mode': 'counter',
                        'root': {'items': [inc, {'stmt': 'Lback'}, inc]}})
        # a function called again and again (a new frame each time); the same file named by different statements
        out.append({'files': {loc: three}, 'mode': 'counter',
                    'root': {'items': [{'def': 'f1', 'body': [inc]}, {'call': 'f1'}, {'stmt': 'La'}, {'call': 'f1'}, {'call': 'f1'}]}})
        out.append({'files': {loc: three}, 'mode': 'counter', 'root': {'items': [inc, {'stmt': 'La'}, inc, {'inc': [[ref, False], [ref, False]]}]}})
        for c in out[start:]:
            c['urlFn'] = root_loc
    cases = []
    for c in out:
        c.update({'kind': 'reexec', 'systemPrefix': None, 'maxStatements': BIG})
        cases.append(rx_finish(json.loads(json.dumps(c))))       # a private copy: versions are shared between the hand cases above
    return cases


def rx_run_impl(case):
    """Execute the real implementation on the rendered texts of a reexec case. -> observation dict"""
    m = fw.impl()
    parser, runtime, options_mod = m['parser'], m['runtime'], m['options']
    events, bad_requests = [], []
    files = case['files']
    counter = case['mode'] == 'counter'
    cur = {loc: 0 for loc in files}

    def fetch_fn(request):
        if not isinstance(request, dict) or set(request) != {'url'}:
            bad_requests.append(repr(request))
        url = request['url']
        events.append(['fetch', url])
        f = files.get(url)
        if f is None:
            return None
        v = cur[url] % len(f['versions'])
        ver = f['versions'][v]
        if counter:
            cur[url] = (v + 1) % len(f['versions'])
        if ver['kind'] == 'missing':
            return None
        if ver['kind'] == 'throws':
            raise make_exc(ver.get('exc', 'ValueError'))
        return ver['text']

    def vfs_set(args, unused_options):
        cur[args[0]] = int(args[1])

    def log_fn(text):
        events.append(['exec', text])

    globals_ = {'trace': '', 'vfsSet': vfs_set}
    options = {'globals': globals_, 'logFn': log_fn, 'maxStatements': case['maxStatements'], 'fetchFn': fetch_fn}
    if case['systemPrefix'] is not None:
        options['systemPrefix'] = case['systemPrefix']
    if case['urlFn'] is not None:
        options['urlFn'] = functools.partial(options_mod.url_file_relative, case['urlFn'])
    try:
        script = parser.parse_script(case['root']['text'])
    except Exception as exc:  # pylint: disable=broad-except
        return {'events': [], 'outcome': {'kind': 'root-does-not-parse', 'msg': str(exc)}, 'trace': ''}
    outcome = {'kind': 'ok'}
    try:
        runtime.execute_script(script, options)
    except parser.BareScriptParserError as exc:
        first = str(exc).partition('\n')[0]
        if first.startswith('Included from "') and first.endswith('"'):
            outcome = {'kind': 'parseError', 'url': first[len('Included from "'):-1]}
        else:
            outcome = {'kind': 'other', 'class': 'BareScriptParserError', 'msg': str(exc)}
    except runtime.BareScriptRuntimeError as exc:
        msg = str(exc)
        if msg.startswith('Include of "') and msg.endswith('" failed'):
            outcome = {'kind': 'includeFailed', 'url': msg[len('Include of "'):-len('" failed')]}
        elif msg == f'Exceeded maximum script statements ({case["maxStatements"]})':
            outcome = {'kind': 'exceeded'}
        else:
            outcome = {'kind': 'other', 'class': 'BareScriptRuntimeError', 'msg': msg}
    except BaseException as exc:  # pylint: disable=broad-except
        outcome = {'kind': 'other', 'class': type(exc).__name__, 'msg': safe_text(exc)}
    out = {'events': events, 'outcome': outcome, 'trace': globals_.get('trace')}
    if bad_requests:
        out['bad_requests'] = bad_requests[:3]
    return out


def rx_verdict(case, want=None):
    """-> (expected, actual, ok?, stats) ; expected None: the unrolled run is too long to be a case"""
    want = want if want is not None else rx_expected(case)
    if want is None:
        return None, None, True, {}
    impl = rx_run_impl(case)
    got = {'events': impl['events'], 'outcome': impl['outcome'], 'trace': impl['trace']}
    if impl['outcome'].get('kind') == 'exceeded':
        # the statement budget is C09's business: what ran must be an initial part of what the property prescribes
        n = len(impl['events'])
        ok = impl['events'] == want['events'][:n] and isinstance(impl['trace'], str) and want['trace'].startswith(impl['trace'])
        return {'events_prefix_of': want['events'], 'trace_prefix_of': want['trace'], 'outcome': 'exceeded (budget), any prefix'}, got, ok, want['stats']
    exp = {k: want[k] for k in ('events', 'outcome', 'trace')}
    ok = exp == got and not impl.get('bad_requests')
    if impl.get('bad_requests'):
        got['bad_requests'] = impl['bad_requests']
    return exp, got, ok, want['stats']


def rx_shrink(case):
    """Greedy reduction of a failing case (fewer rounds, fewer items) - the witness stays a failing input of the property."""
    def fails(c):
        try:
            c = rx_finish(c)
            return not rx_verdict(c)[2]
        except Exception:  # pylint: disable=broad-except
            return False

    def item_lists(c):
        todo = [c['root']['items']] + [v['items'] for f in c['files'].values() for v in f['versions'] if v['kind'] == 'text']
        while todo:
            items = todo.pop()
            yield items
            for it in items:
                if isinstance(it, dict) and 'body' in it:
                    todo.append(it['body'])

    best = json.loads(json.dumps(case))
    budget = 200
    changed = True
    while changed and budget > 0:
        changed = False
        li = 0
        while budget > 0:
            lists = list(item_lists(best))
            if li >= len(lists):
                break
            for ii in reversed(range(len(lists[li]))):
                if budget <= 0:
                    break
                cand = json.loads(json.dumps(best))
                cand_lists = list(item_lists(cand))
                if li >= len(cand_lists) or ii >= len(cand_lists[li]):
                    continue
                it = cand_lists[li][ii]
                if isinstance(it, dict) and 'def' in it:
                    continue                                          # calls would dangle
                del cand_lists[li][ii]
                budget -= 1
                if fails(cand):
                    best, changed = cand, True
            li += 1
    # drop the locations nothing refers to any more
    keep, todo = set(), [(best['urlFn'], best['root']['items'])]
    while todo:
        self_loc, items = todo.pop()
        for it in items:
            if isinstance(it, dict) and 'body' in it:
                todo.append((self_loc, it['body']))
            if isinstance(it, dict) and 'inc' in it:
                for url, system in it['inc']:
                    loc = spec_location(best['systemPrefix'], self_loc, url, system)
                    if loc not in keep:
                        keep.add(loc)
                        todo.extend((loc, v['items']) for v in (best['files'].get(loc) or {'versions': []})['versions'] if v['kind'] == 'text')
    pruned = json.loads(json.dumps(best))
    pruned['files'] = {k: v for k, v in best['files'].items() if k in keep}
    return rx_finish(pruned) if fails(pruned) else rx_finish(best)


def rx_case_tags(case, stats, got):
    tags = ['outcome:' + got['outcome'].get('kind', '?'), 'mode:' + case['mode']]
    tags += [k for k, v in stats.items() if v]
    text = case['root']['text'] + ''.join(v.get('text') or '' for f in case['files'].values() for v in f['versions'])
    for word, tag in (('while true:', 'loop:whilebreak'), ('jumpif', 'loop:jump'), ('for e', 'loop:for'), ('endwhile', 'loop:while-or-break'),
                      ('function fn', 'function'), ('vfsSet(', 'script-rewrites-location')):
        if word in text:
            tags.append(tag)
    nf = sum(1 for e in got['events'] if e[0] == 'fetch')
    tags.append('fetches:' + ('0' if nf == 0 else '1-3' if nf <= 3 else '4-9' if nf <= 9 else '10-29' if nf <= 29 else '30+'))
    return tags


def stream_reexec(ctx):
    st = ctx.stream('reexec', 'programs whose include statements are executed more than once - in while / for / raw backward-jump / while-true-break '
                              'loops (0-4 rounds, nested to 2), under if-conditions on the round, in functions called again (new frame), the same '
                              'location named by several statements and files - over a virtual file system whose locations hold 1-3 versions '
                              '(text / missing / throwing / broken) that change with every fetch (counter) or when the script rewrites them '
                              '(host function vfsSet); rendered as BareScript, run with execute_script; the recorded sequence of fetch requests and '
                              'log lines, the global "trace" and the outcome must equal the property statement unrolled along the control flow '
                              '(implementation-side reference; the Lean machine has no loops); non-trivial = some include statement ran more than '
                              'once, or some location was fetched more than once')
    cases = [('hand', c) for c in rx_hand_cases()]
    rng = ctx.rng('reexec')
    n_random = ctx.scale(2500, 30000)
    while n_random > 0:
        case = LoopGen(rng).build()
        cases.append(('random', case))
        n_random -= 1
    reported = 0
    for origin, case in cases:
        exp, got, ok, stats = rx_verdict(case)
        if exp is None:
            continue
        nontrivial = bool(stats.get('reexec-same-frame') or stats.get('reexec-new-frame') or stats.get('refetched'))
        st.case({'root': case['root']['text'], 'urlFn': case['urlFn'], 'prefix': case['systemPrefix'], 'mode': case['mode'], 'files': sorted(case['files'])[:6]},
                nontrivial=nontrivial, tags=rx_case_tags(case, stats, got) + [origin])
        if not ok and reported < 12:
            reported += 1
            small = rx_shrink(case) if origin == 'random' else case
            exp, got, ok2, _ = rx_verdict(small)
            if ok2 or exp is None:
                small = case
                exp, got, _, _ = rx_verdict(small)
            ctx.witness('include-reexec', small, exp, got)


# ---------------------------------------------------------------------------------------------------------------------
# mcli stream: bare.main() with SEVERAL scripts on one command line (script files in different directories, inline -c
# scripts, system includes, -v / -d / -s / -m options, in every order argparse accepts), many command lines in one process,
# started from different working directories of the same tree
# ---------------------------------------------------------------------------------------------------------------------
#
# A *world* is a small real directory tree (placeholder root '@ROOT@', working directory '@ROOT@/cwd') in which the SAME
# file names exist in every directory with different content: every text logs tags naming its own real location, so a
# reference resolved against the wrong base shows in stdout (another file answers, or the include fails).
# Texts of level k include only texts of a higher level (main/inline < u0 < u1 < u2 < args.bare): every tree is finite.
# The reference is the property statement, script by script: every script of the command line is a tree of its own - a
# script FILE resolves its includes against the path it was given on the command line, an inline script is contained in
# no file, so its include paths are used unchanged (i.e. relative to the working directory) - whatever ran before it on
# the same command line or earlier in the same process. Items: the simple items of the include stream ('nop' | 'ret' |
# {'stmt': tag[, 'v': true]} | {'inc': entries[, 'fn': name]}), so every script is also one run of the Lean include machine.

MC_ROOT = '@ROOT@'
MC_DIRS = ['.', 'app', 'app/sub', 'lib', '..', '../other', '../other/deep']
MC_LEVELS = {'u0.bare': 0, 'u1.bare': 1, 'u2.bare': 2, 'args.bare': 3}
MC_MAINS = ['main.bare', 'm2.bare']
MC_SYSTEM = ['diff.bare', 'args.bare', 'unittest.bare']           # packaged includes that log nothing when included
MC_PREFIX = ':bare-include:' + os.sep
MC_V = ['-v', 'cfgv', "''"]
MC_BOOT = 'import sys\nsys.path.insert(0, sys.argv[1])\nsys.argv = ["bare"] + sys.argv[2:]\nfrom bare_script.bare import main\nmain()\n'
MC_INLINE_NAME = re.compile(r'^-c \d+:$')
MC_BOOT_SEQ = """
import contextlib, io, json, os, sys
sys.path.insert(0, sys.argv[1])
from bare_script.bare import main
last = None
for wd, argv in json.load(sys.stdin):
    os.chdir(wd)
    out, code = io.StringIO(), None
    with contextlib.redirect_stdout(out), contextlib.redirect_stderr(io.StringIO()):
        try:
            main(argv)
        except SystemExit as exc:
            code = exc.code
    last = [out.getvalue().splitlines(), code]
json.dump(last, sys.stdout)
"""


def mc_abs(d, root=MC_ROOT):
    """Directory d (relative to the working directory of the world) as a normalised absolute path."""
    return os.path.normpath(root + '/cwd/' + d)


def mc_key(path, root=MC_ROOT):
    """normalised absolute path -> key of the world's file map (the path below the root); None outside the world"""
    return path[len(root) + 1:] if path.startswith(root + '/') else None


def mc_bind(obj, root, frm=MC_ROOT):
    """The same object with the root placeholder replaced (in every string)."""
    return json.loads(json.dumps(obj).replace(json.dumps(frm)[1:-1], json.dumps(root)[1:-1]))


def mc_lookup(world, root, loc, wd='.'):
    """What the location holds: packaged system include, a file of the world (lexical normalisation: every directory that
    occurs in a reference exists), or nothing."""
    if loc.startswith(MC_PREFIX):
        return {'kind': 'text', 'items': [], 'packaged': True} if loc[len(MC_PREFIX):] in MC_SYSTEM else None
    key = mc_key(os.path.normpath(os.path.join(mc_abs(wd, root), loc)), root)
    return world['files'].get(key) if key else None


def mc_render(items, root_script=False):
    lines = []
    for idx, it in enumerate(items):
        if it == 'nop':
            lines.append(f'unused{idx} = {idx}')
        elif it == 'ret':
            lines.append('return' if root_script else 'return 3')     # the value of an included script's return is nobody's exit status
        elif 'stmt' in it:
            tag = it['stmt']
            if tag.startswith('L'):
                lines.append(f"systemLog('{tag}'" + (' + cfgv' if it.get('v') else '') + ')')
            else:
                lines.append(f"trace = trace + '{tag};'")
        else:
            inc = ['include ' + quote_url(ref, system) for ref, system in it['inc']]
            if it.get('fn'):
                lines += [f'function {it["fn"]}():'] + ['    ' + ln for ln in inc] + ['endfunction', f'{it["fn"]}()']
            else:
                lines += inc
    return lines


def mc_wrap(lines):
    return "trace = ''\n" + '\n'.join(lines) + "\nsystemLog('T=' + trace)\n"


class McGen:
    """Random worlds and command lines (placeholder root)."""

    def __init__(self, rng):
        self.rng = rng
        self.n = 0
        self.uses_v = rng.random() < 0.5

    def ref(self, d, names):
        rng = self.rng
        if not names or rng.random() < 0.08:
            return [rng.choice(['diff.bare'] * 8 + ['args.bare'] * 3 + ['unittest.bare'] * 2 + ['nosuch.bare']), True]
        name = rng.choice(names)
        if rng.random() < 0.88:
            t = rng.choice(MC_DIRS)                                   # aimed at a directory of the world
            if rng.random() < 0.15:
                return [mc_abs(t) + '/' + name, False]
            rel = os.path.relpath(mc_abs(t, '/R'), mc_abs(d, '/R'))
            ref = name if rel == '.' else rel + '/' + name
            return ['./' + ref if rng.random() < 0.15 else ref, False]
        # a spelling that means different files (or none) from different places
        return [rng.choice(['', '', '', 'sub/', '../', 'lib/', 'app/', '../lib/', 'deep/', '../other/', './', 'app/sub/', 'cwd/']) + name, False]

    def items(self, d, level, tag):
        rng = self.rng
        names = [n for n, lv in MC_LEVELS.items() if lv > level]
        out = [{'stmt': f'L{tag}.a'}]
        if self.uses_v and rng.random() < 0.4:
            out[0]['v'] = True
        n_slots = rng.randint(1, 4) if level < 0 else rng.randint(0, 3) if level < 3 else rng.randint(0, 1)
        for i in range(n_slots):
            r = rng.random()
            if r < (0.55 if level < 3 else 0.2):
                self.n += 1
                it = {'inc': [self.ref(d, names) for _ in range(rng.choice([1, 1, 1, 2]))]}
                if rng.random() < 0.2:
                    it['fn'] = f'incFn{self.n}'
                out.append(it)
            elif r < 0.8:
                out.append({'stmt': f'S{tag}.{i}'})
            elif r < 0.9:
                out.append({'stmt': f'L{tag}.{i}'})
            elif r < 0.95:
                out.append('nop')
            else:
                out.append('ret')
        if level < 0 and not any(isinstance(it, dict) and 'inc' in it for it in out):
            out.insert(1, {'inc': [self.ref(d, names)]})              # a script of the command line includes something
        out.append({'stmt': f'L{tag}.z'})
        return out

    def world(self):
        rng = self.rng
        files = {}
        for d in MC_DIRS:
            for name, level in MC_LEVELS.items():
                key = mc_key(mc_abs(d) + '/' + name)
                r = rng.random()
                if r < 0.95:
                    items = self.items(d, level, key)
                    files[key] = {'kind': 'text', 'items': items, 'text': '\n'.join(mc_render(items)) + '\n'}
                elif r < 0.97:
                    files[key] = {'kind': 'broken', 'text': f"systemLog('Lnever')\n{rng.choice(BROKEN_LINES)}\n"}
            for name in MC_MAINS:
                if rng.random() < 0.85:
                    key = mc_key(mc_abs(d) + '/' + name)
                    items = self.items(d, -1, key)
                    files[key] = {'kind': 'text', 'items': items, 'text': mc_wrap(mc_render(items, True)), 'main': [d, name]}
        if not any(f.get('main') for f in files.values()):
            items = self.items('app', -1, 'cwd/app/main.bare')
            files['cwd/app/main.bare'] = {'kind': 'text', 'items': items, 'text': mc_wrap(mc_render(items, True)), 'main': ['app', 'main.bare']}
        return {'files': files, 'v': self.uses_v}

    def script_file(self, world, wd):
        rng = self.rng
        key = rng.choice(sorted(k for k, f in world['files'].items() if f.get('main')))
        d, name = world['files'][key]['main']
        rel = os.path.relpath(mc_abs(d, '/R') + '/' + name, mc_abs(wd, '/R'))        # as typed in the working directory wd
        forms = [rel] * 5 + [mc_abs(d) + '/' + name] * 2 + ['./' + rel]
        if wd == '.':
            forms.append(('app/../' if d == '.' else 'lib/../') + rel)
            if d != '.':
                forms.append(d + '//' + name)
        return {'path': rng.choice(forms), 'key': key}

    def script_code(self, wd):
        self.n += 1
        items = self.items(wd, -1, f'c{self.n}')
        return {'code': {'items': items, 'text': mc_wrap(mc_render(items, True))}, 'flag': self.rng.choice(['-c', '-c', '--code'])}

    def cmdline(self, world):
        """-> {'wd': working directory (relative to <root>/cwd), 'groups': [{'code': …, 'flag': …} | {'files': […]} | {'opt': […]}]};
        argparse takes the script files as ONE contiguous group"""
        rng = self.rng
        wd = rng.choice(['.', '.', '.', 'app', '../other'])
        while True:
            n_pre, n_files, n_post = rng.choice([0, 0, 1, 1, 2]), rng.choice([0, 1, 1, 2, 2, 3]), rng.choice([0, 0, 1, 1, 2])
            total = n_pre + n_files + n_post
            if total >= 2 or (total == 1 and rng.random() < 0.15):
                break
        groups = [self.script_code(wd) for _ in range(n_pre)]
        if n_files:
            groups.append({'files': [self.script_file(world, wd) for _ in range(n_files)]})
        groups += [self.script_code(wd) for _ in range(n_post)]
        opts = []
        if world['v']:
            opts.append({'opt': list(MC_V), 'needed': True})
        if rng.random() < 0.25:
            opts.append({'opt': ['-v', 'other', rng.choice(['1 + 1', "'x'", 'null'])]})
        if rng.random() < 0.08:
            opts.append({'opt': [rng.choice(['-d', '--debug'])]})
        if rng.random() < 0.06:
            opts.append({'opt': [rng.choice(['-s', '--static'])]})
        if rng.random() < 0.05:
            opts.append({'opt': [rng.choice(['-m', '--markdown-up'])]})
        for o in opts:
            groups.insert(rng.randint(0, len(groups)), o)
        return {'wd': wd, 'groups': groups}


def mc_argv(groups):
    argv = []
    for g in groups:
        if 'code' in g:
            argv += [g['flag'], g['code']['text']]
        elif 'files' in g:
            argv += [f['path'] for f in g['files']]
        else:
            argv += g['opt']
    return argv


def mc_scripts(groups):
    out = []
    for g in groups:
        if 'code' in g:
            out.append({'type': 'code', 'items': g['code']['items']})
        elif 'files' in g:
            out += [{'type': 'file', 'path': f['path'], 'key': f['key']} for f in g['files']]
    return out


def mc_flag(groups, *names):
    return any('opt' in g and g['opt'][0] in names for g in groups)


def mc_script_items(world, script):
    return world['files'][script['key']]['items'] if script['type'] == 'file' else script['items']


def mc_script_case(world, root, script, wd='.'):
    """One script of a command line as a case of the include stream: its items, its own location (none for an inline
    script) and the map resolved location -> text of everything its tree can reach (the property's reading)."""
    loc = script['path'] if script['type'] == 'file' else None
    items = mc_script_items(world, script)
    files = {}
    todo = [(loc, items)]
    while todo:
        self_loc, its = todo.pop()
        for it in its:
            if isinstance(it, dict) and 'inc' in it:
                for url, system in it['inc']:
                    u = spec_location(MC_PREFIX, self_loc, url, system)
                    if u in files:
                        continue
                    f = mc_lookup(world, root, u, wd)
                    if f is None:
                        files[u] = {'kind': 'missing'}
                    elif f['kind'] == 'broken':
                        files[u] = {'kind': 'broken'}
                    else:
                        files[u] = {'kind': 'text', 'items': f['items']}
                        todo.append((u, f['items']))
    return {'files': files, 'root': {'items': items}, 'urlFn': loc, 'systemPrefix': MC_PREFIX, 'maxStatements': BIG, 'fetch': True, 'acyclic': True}


def mc_spec_result(case):
    logs, tags, outcome = [], [], {'kind': '?'}
    for ev in spec_events(case):
        if ev[0] == 'end':
            outcome = ev[1]
            break
        if ev[0] == 'exec':
            (logs if ev[1].startswith('L') else tags).append(ev[1])
    return logs, ''.join(t + ';' for t in tags), outcome


def mc_model_result(resp):
    if 'log' not in resp:
        return [], '', {'kind': 'bad', 'resp': resp}
    logs, trace = split_tags(resp['log'])
    return logs, trace, resp['outcome']


def mc_lines(world, groups, results):
    """Per-script results (log tags, trace, outcome) -> (stdout lines, exit status, only a prefix of stdout is prescribed?)"""
    if mc_flag(groups, '-s', '--static'):
        return [], None, False                                        # nothing is executed: nothing is fetched, nothing is logged
    lines = []
    for script, (logs, trace, outcome) in zip(mc_scripts(groups), results):
        lines += logs
        if outcome.get('kind') == 'ok':
            if 'ret' not in mc_script_items(world, script):
                lines.append('T=' + trace)
            continue
        lines.append((script['path'] if script['type'] == 'file' else '-c #') + ':')
        if outcome.get('kind') == 'includeFailed':
            return lines + [f'Include of "{outcome["url"]}" failed'], 1, False
        return lines + [f'Included from "{outcome.get("url")}"'], 1, True
    return lines, 0, False


def mc_norm(lines):
    """stdout without the lines of the linter / debug mode (C18's business, wall-clock times); inline script names without their number"""
    return ['-c #:' if MC_INLINE_NAME.match(ln) else ln for ln in lines if not ln.startswith('BareScript:')]


def mc_run(root, argv, wd='.'):
    """bare.main(argv) in this process, started in the working directory wd of the world"""
    old = _cwd()
    os.chdir(mc_abs(wd, root))
    try:
        with contextlib.redirect_stderr(io.StringIO()):
            try:
                lines, code = run_cli(list(argv))
            except BaseException as exc:  # pylint: disable=broad-except
                lines, code = [f'escaped: {type(exc).__name__}: {exc}'], 'exception'
    finally:
        os.chdir(old)
    return mc_norm(lines), code


def mc_run_fresh(root, argv, wd='.'):
    """the same command line in a fresh interpreter process (no state of this process, its own working directory)"""
    try:
        res = subprocess.run([sys.executable, '-c', MC_BOOT, os.path.join(fw.REPO, 'src')] + list(argv), cwd=mc_abs(wd, root),
                             capture_output=True, text=True, timeout=120, check=False, stdin=subprocess.DEVNULL)
    except subprocess.TimeoutExpired:
        return ['timeout'], 'timeout'
    return mc_norm(res.stdout.splitlines()), res.returncode


def mc_run_fresh_seq(root, cmds):
    """Several command lines one after the other in ONE fresh interpreter process -> observation of the last one"""
    seq = [[mc_abs(cmd['wd'], root), mc_argv(cmd['groups'])] for cmd in cmds]
    try:
        res = subprocess.run([sys.executable, '-c', MC_BOOT_SEQ, os.path.join(fw.REPO, 'src')], input=json.dumps(seq), cwd=root,
                             capture_output=True, text=True, timeout=120, check=False)
        lines, code = json.loads(res.stdout)
    except (subprocess.TimeoutExpired, ValueError):
        return ['no answer'], 'no answer'
    return mc_norm(lines), code


def mc_fails_in_fresh_process(root, cmds, want):
    lines, code = mc_run_fresh_seq(root, cmds)
    return {'stdout': lines[:len(want['stdout'])] if want['exit'] == 1 else lines, 'exit': code if want['exit'] is not None else None} != want


def mc_materialise(world, root):
    for d in MC_DIRS:
        os.makedirs(mc_abs(d, root), exist_ok=True)
    for key, f in world['files'].items():
        path = os.path.join(root, key)
        if not inside(path, root):
            raise OSError(f'{path} would be written outside {root}')
        with open(path, 'w', encoding='utf-8', newline='') as fh:
            fh.write(f['text'])


def mc_verdict(world, root, cmd, results=None):
    """-> (expected, actual, ok?) of one command line over a materialised world (everything bound to the real root)"""
    groups, wd = cmd['groups'], cmd['wd']
    if results is None:
        results = [mc_spec_result(mc_script_case(world, root, s, wd)) for s in mc_scripts(groups)]
    want_lines, want_exit, cut = mc_lines(world, groups, results)
    lines, code = mc_run(root, mc_argv(groups), wd)
    if cut:
        lines = lines[:len(want_lines)]
    want = {'stdout': want_lines, 'exit': want_exit}
    got = {'stdout': lines, 'exit': code if want_exit is not None else None}
    return want, got, want == got


def mc_fresh_obs(root, cmd, want, got):
    """The command line in a fresh interpreter process, cut like the in-process observation."""
    flines, fcode = mc_run_fresh(root, mc_argv(cmd['groups']), cmd['wd'])
    del got
    return {'stdout': flines[:len(want['stdout'])] if want['exit'] == 1 else flines, 'exit': fcode if want['exit'] is not None else None}


def mc_shrink(world, root, cmd):
    """Fewer scripts / options while the command line still fails (each candidate is a legal command line)."""
    def fails(gs):
        return bool(mc_scripts(gs)) and not mc_verdict(world, root, {'wd': cmd['wd'], 'groups': gs})[2]
    best = cmd['groups']
    changed = True
    while changed:
        changed = False
        for gi in reversed(range(len(best))):
            g = best[gi]
            cands = []
            if 'files' in g and len(g['files']) > 1:
                cands = [best[:gi] + [{'files': g['files'][:fi] + g['files'][fi + 1:]}] + best[gi + 1:] for fi in range(len(g['files']))]
            elif not g.get('needed'):
                cands = [best[:gi] + best[gi + 1:]]
            for cand in cands:
                if fails(cand):
                    best, changed = cand, True
                    break
            if changed:
                break
    return {'wd': cmd['wd'], 'groups': best}


def mc_slim_world(world, root, cmds):
    """The world without the files no script of the given command lines can reach."""
    keep = set()
    for cmd in cmds:
        for s in mc_scripts(cmd['groups']):
            if s['type'] == 'file':
                keep.add(s['key'])
            for u in mc_script_case(world, root, s, cmd['wd'])['files']:
                if not u.startswith(MC_PREFIX):
                    key = mc_key(os.path.normpath(os.path.join(mc_abs(cmd['wd'], root), u)), root)
                    if key:
                        keep.add(key)
    return {'files': {k: v for k, v in world['files'].items() if k in keep}, 'v': world['v']}


def mc_hand():
    """A hand-made world and eight scripts: script files in the working directory, in sub-directories (relative and absolute),
    in a sibling of the working directory, and inline scripts whose references mean different files from different places."""
    files = {}

    def add(d, name, items, main=False):
        key = mc_key(mc_abs(d) + '/' + name)
        for it in items:
            if isinstance(it, dict) and 'stmt' in it:
                it['stmt'] = it['stmt'].replace('@', key)
        f = {'kind': 'text', 'items': items, 'text': mc_wrap(mc_render(items, True)) if main else '\n'.join(mc_render(items)) + '\n'}
        if main:
            f['main'] = [d, name]
        files[key] = f
        return key
    for d in ('.', 'app', 'lib', '../other'):
        add(d, 'u2.bare', [{'stmt': 'L@'}])
        add(d, 'u1.bare', [{'stmt': 'L@.a'}, {'inc': [['u2.bare', False]]}, {'stmt': 'S@'}, 'ret', {'stmt': 'L@.never'}])
        add(d, 'main.bare', [{'stmt': 'L@.a'}, {'inc': [['u1.bare', False]] + ([['args.bare', True]] if d == 'app' else [])}, {'stmt': 'S@'},
                             {'inc': [['args.bare', False]]}, {'stmt': 'L@.z'}], main=True)
    for d in ('.', 'app', '../other'):
        add(d, 'args.bare', [{'stmt': 'L@ (not the system one)'}])
    add('.', 'u0.bare', [{'stmt': 'L@ (only here)'}])
    world = {'files': files, 'v': False}

    def code(tag, *entries):
        items = [{'stmt': f'L{tag}.a'}] + [{'inc': [list(e)]} for e in entries] + [{'stmt': f'S{tag}'}]
        return {'code': {'items': items, 'text': mc_wrap(mc_render(items, True))}, 'flag': '-c'}
    alts = [
        {'path': 'main.bare', 'key': 'cwd/main.bare'},
        {'path': 'app/main.bare', 'key': 'cwd/app/main.bare'},
        {'path': mc_abs('app') + '/main.bare', 'key': 'cwd/app/main.bare'},
        {'path': '../other/main.bare', 'key': 'other/main.bare'},
        {'path': './lib/main.bare', 'key': 'cwd/lib/main.bare'},                 # lib has no local args.bare: that script fails there
        code('cA', ('u1.bare', False)),
        code('cB', ('app/u2.bare', False), ('args.bare', True), ('args.bare', False)),
        code('cC', ('u0.bare', False), ('lib/u1.bare', False)),
    ]
    return world, alts


def mc_hand_cmdlines(alts, max_len):
    """EVERY order of up to max_len of the alternatives that argparse accepts (the script files are one contiguous group)."""
    out = []
    for n in range(1, max_len + 1):
        for seq in itertools.product(range(len(alts)), repeat=n):
            groups = []
            file_groups = 0
            for ai in seq:
                a = alts[ai]
                if 'code' in a:
                    groups.append(a)
                elif groups and 'files' in groups[-1]:
                    groups[-1]['files'].append(a)
                else:
                    groups.append({'files': [a]})
                    file_groups += 1
            if file_groups <= 1:
                out.append({'wd': '.', 'groups': json.loads(json.dumps(groups))})
    return out


def stream_mcli(ctx):
    st = ctx.stream('mcli', 'bare.main(argv) with SEVERAL scripts on one command line, many command lines one after the other in this process, started '
                            'in different working directories of the same tree: script files in the working directory / sub-directories / a sibling '
                            'directory (relative, ./, dir/../, doubled slash and absolute spellings), inline -c/--code scripts before and after the '
                            'files, `include <...>` of packaged includes next to local files of the same name, -v / -d / -s / -m at every legal '
                            'position; the same file names exist in every directory with different content. Hand world: EVERY order of up to 3 '
                            '(quick) / 4 (thorough) scripts out of eight; random worlds x 12 command lines. Oracles: stdout and exit status = the '
                            'property read script by script (a file resolves against the path it was given, an inline script uses its paths '
                            'unchanged, nothing depends on what ran before) [cli-multi]; a sample re-run in a fresh interpreter process gives '
                            'the same answer [cli-fresh-process]. Every script is also one run of the Lean include machine (compared); the '
                            'command line itself (argparse, working directory, process state) is host-only: implementation-side oracle. '
                            'non-trivial = at least two scripts on the command line and at least one include executed')
    rng = ctx.rng('mcli')
    tmp = tempfile.mkdtemp(prefix='verif_c17m_', dir=os.environ.get('VERIF_TMP') or None)
    try:
        hand_world, alts = mc_hand()
        hand_cmds = mc_hand_cmdlines(alts, ctx.scale(3, 4))
        worlds = [(hand_world, [('hand', c) for c in hand_cmds])]
        for _ in range(ctx.scale(40, 600)):
            gen = McGen(rng)
            world = gen.world()
            worlds.append((world, [('random', gen.cmdline(world)) for _ in range(12)]))
        jobs = []                                                     # (origin, root, bound world, bound command line, placeholder one, world index)
        for wi, (world, cmds) in enumerate(worlds):
            root = os.path.join(tmp, f'w{wi}')
            bworld = mc_bind(world, root)
            try:
                mc_materialise(bworld, root)
            except OSError as exc:
                ctx.notes.append(f'mcli: could not materialise a world: {exc}')
                continue
            jobs += [(origin, root, bworld, mc_bind(cmd, root), cmd, wi) for origin, cmd in cmds]
        cases = [[mc_script_case(bworld, root, s, bcmd['wd']) for s in mc_scripts(bcmd['groups'])] for _, root, bworld, bcmd, _, _ in jobs]
        resps = iter(ctx.driver.batch([model_request(c) for cs in cases for c in cs]))
        n_fresh = ctx.scale(5, 150)
        fresh_hand = set(rng.sample(range(len(hand_cmds)), min(ctx.scale(3, 40), len(hand_cmds))))
        reported = unrecorded = fresh_reported = 0
        history = {}
        for ji, ((origin, root, bworld, bcmd, cmd, wi), cs) in enumerate(zip(jobs, cases)):
            mresps = [next(resps) for _ in cs]
            want, got, ok = mc_verdict(bworld, root, bcmd, [mc_spec_result(c) for c in cs])
            groups = cmd['groups']
            scripts = mc_scripts(bcmd['groups'])
            label = ['wd=' + cmd['wd']] + mc_argv(groups)
            n_inc = sum(1 for r in mresps for e in r.get('events', []) if e[0] == 'fetch')
            static = mc_flag(groups, '-s', '--static')
            kinds = ''.join('F' if s['type'] == 'file' else 'C' for s in scripts)
            tags = [origin, 'wd:' + cmd['wd'], 'scripts:' + (kinds if len(kinds) <= 3 else kinds[:3] + '+'), 'exit:' + str(want['exit'])]
            tags += [t for t, names in (('opt:-v', ('-v',)), ('opt:-d', ('-d', '--debug')), ('opt:-s', ('-s', '--static')), ('opt:-m', ('-m', '--markdown-up')))
                     if mc_flag(groups, *names)]
            if 'FC' in kinds:
                tags.append('inline-after-file')
            if len({bworld['files'][s['key']]['main'][0] for s in scripts if s['type'] == 'file'}) > 1:
                tags.append('files-in-different-directories')
            if any(s['type'] == 'file' and os.path.isabs(s['path']) for s in scripts):
                tags.append('absolute-script-path')
            if want['exit'] == 1:
                first_bad = next(i for i, c in enumerate(cs) if mc_spec_result(c)[2].get('kind') != 'ok')
                tags.append(origin + '/failing-script:' + ('first' if first_bad == 0 else 'later'))
            st.case(label, nontrivial=len(scripts) >= 2 and n_inc > 0 and not static, tags=tags)
            # correspondence: every script is one run of the Lean machine
            mlines, mexit, _ = mc_lines(bworld, bcmd['groups'], [mc_model_result(r) for r in mresps])
            ctx.compare('mcli', label, got, {'stdout': mlines, 'exit': mexit})
            for r in mresps:
                if 'specEvents' in r and (r['events'] != r['specEvents'] or r['outcome'] != r['specOutcome']):
                    ctx.disagree('mcli', label, {'events': r['events'], 'outcome': r['outcome']},
                                 {'events': r['specEvents'], 'outcome': r['specOutcome']}, note='Lean mirror vs Lean spec (theorem run_spec)')
            before = history.setdefault(wi, [])
            if not ok and reported < 8 and reported + unrecorded < 20:
                small = mc_shrink(bworld, root, bcmd)
                want2, got2, ok2 = mc_verdict(bworld, root, small)
                if ok2:
                    small = bcmd
                else:
                    want, got = want2, got2
                # does it fail on its own (first thing in a fresh process), after the earlier command lines of this world (verified in ONE
                # fresh process), or only after something that ran in another world of this run (not recorded: a replay will not fail)?
                hist, note = [], 'not needed'
                if not mc_fails_in_fresh_process(root, [small], want):
                    hist, note = before[-6:], 'the command lines under "before" ran first in the same process'
                    if not hist or not mc_fails_in_fresh_process(root, hist + [small], want):
                        hist, note = [], 'needed (a fresh process gives the expected answer) but it lies in other worlds of this run: not recorded'
                if 'not recorded' in note:
                    unrecorded += 1
                else:
                    reported += 1
                if 'not recorded' not in note or unrecorded <= 6:
                    inp = {'world': mc_slim_world(bworld, root, [small] + hist), 'cmd': small, 'before': hist, 'argv': mc_argv(small['groups']),
                           'history': note}
                    ctx.witness('cli-multi', mc_bind(inp, MC_ROOT, frm=root), want, got)
            elif ok and len(scripts) >= 2 and fresh_reported < 4 and (
                    (origin == 'hand' and ji in fresh_hand) or (origin == 'random' and n_fresh > 0 and ji % 7 == 0)):
                if origin == 'random':
                    n_fresh -= 1
                fgot = mc_fresh_obs(root, bcmd, want, got)
                st.case(['fresh-process'] + label, nontrivial=True, tags=['fresh-process'])
                if fgot != got:
                    fresh_reported += 1
                    inp = {'world': mc_slim_world(bworld, root, [bcmd]), 'cmd': bcmd, 'before': [], 'argv': mc_argv(bcmd['groups'])}
                    ctx.witness('cli-fresh-process', mc_bind(inp, MC_ROOT, frm=root), {'in a fresh process': fgot}, {'in this process': got})
            before.append(bcmd)
    finally:
        shutil.rmtree(tmp, ignore_errors=True)


def _replay_mcli(inp, oracle):
    tmp = tempfile.mkdtemp(prefix='verif_c17m_replay_', dir=os.environ.get('VERIF_TMP') or None)
    try:
        root = os.path.join(tmp, 'w')
        b = mc_bind({'world': inp['world'], 'cmd': inp['cmd'], 'before': inp.get('before') or []}, root)
        mc_materialise(b['world'], root)
        for cmd in b['before']:
            mc_run(root, mc_argv(cmd['groups']), cmd['wd'])
        want, got, ok = mc_verdict(b['world'], root, b['cmd'])
        if oracle == 'cli-multi':
            return not ok
        return mc_fresh_obs(root, b['cmd'], want, got) != got
    finally:
        shutil.rmtree(tmp, ignore_errors=True)


# ---------------------------------------------------------------------------------------------------------------------
# reuse stream: several execute_script runs that share ONE options dict (and one globals dict); some of the runs fail
# ---------------------------------------------------------------------------------------------------------------------
#
# A host that keeps its options object between runs changes, between two runs, only what the next script needs (its
# location -> 'urlFn', the system prefix, the budget, the fetcher). Every run is a tree of its own: what it fetches, runs
# and reports is prescribed by the property for THAT script alone - the same as with fresh options - whatever the earlier
# runs did (completed, failed inside a nested include, ran out of budget). The random trees of the include stream re-use
# the same location names with different content from run to run.

REUSE_JUNK = {'urlFn': 'junk', 'fetchFn': 'junk', 'systemPrefix': '/junk/prefix/', 'url': 'junk.bare', 'include': 1, 'options': None,
              'globals': 2, 'statementCount': -5, 'maxStatements': 1, 'script': 'junk', 'file': '/junk/file.bare'}
REUSE_KEPT = ('urlFn', 'systemPrefix', 'fetchFn', 'globals', 'logFn')


class _StrSub(str):
    """a host string type (subclass of str)"""


def reuse_session(rng):
    runs = []
    for _ in range(rng.choice([2, 2, 3, 3, 4, 5])):
        g = TreeGen(rng, max_depth=3)
        if runs and rng.random() < 0.5:
            g.root_loc = runs[-1]['urlFn']                            # the host has no reason to touch 'urlFn'
        if runs and rng.random() < 0.5:
            g.prefix = runs[-1]['systemPrefix']
        if rng.random() < 0.35:
            g.p_fail = max(g.p_fail, 0.2)                             # fault, then continue
        runs.append(_slim(g.build()))
    return {'kind': 'reuse', 'runs': runs, 'style': rng.choice(['minimal', 'minimal', 'full']), 'none_as': rng.choice(['absent', 'none']),
            'junk': rng.random() < 0.3, 'debug': rng.random() < 0.25, 'strsub': rng.random() < 0.15}


def reuse_hand():
    def case(root_loc, prefix, root_items, files, max_statements=BIG):
        fs = {}
        for loc, f in files.items():
            fs[loc] = dict(f) if isinstance(f, dict) else {'kind': 'text', 'items': f, 'text': '\n'.join(mc_render(f)) + '\n'}
        return {'files': fs, 'root': {'items': root_items, 'text': '\n'.join(mc_render(root_items, True))}, 'urlFn': root_loc, 'systemPrefix': prefix,
                'maxStatements': max_statements, 'fetch': True, 'acyclic': True}

    def inc(*refs):
        return {'inc': [[r[1:-1], True] if r.startswith('<') else [r, False] for r in refs]}
    two = {'/r/a/lib.bare': [{'stmt': 'La-lib'}], '/r/a/sub/lib.bare': [{'stmt': 'Lsub-lib'}], 'lib.bare': [{'stmt': 'Lcwd-lib'}],
           'http://h/p/lib.bare': [{'stmt': 'Lurl-lib'}], '/usr/lib/lib.bare': [{'stmt': 'Lsys-lib'}], '/r/b/lib.bare': [{'stmt': 'Lb-lib'}]}
    good = [{'stmt': 'Lg1'}, inc('lib.bare'), {'stmt': 'Sg2'}, inc('<lib.bare>'), {'stmt': 'Lg3'}]
    faults = [
        ('missing', dict(two, **{'/r/a/sub/x.bare': [{'stmt': 'Lx'}, inc('gone.bare'), {'stmt': 'Lnever'}]})),
        ('broken', dict(two, **{'/r/a/sub/x.bare': [{'stmt': 'Lx'}, inc('bad.bare')], '/r/a/sub/bad.bare': {'kind': 'broken', 'text': 'ok = 1\nx = 1 +\n'}})),
        ('throws', dict(two, **{'/r/a/sub/x.bare': [{'stmt': 'Lx'}, inc('boom.bare')], '/r/a/sub/boom.bare': {'kind': 'throws', 'exc': 'OSError'}})),
        ('budget', dict(two, **{'/r/a/sub/x.bare': [{'stmt': 'Lx'}, {'stmt': 'Lx2'}, {'stmt': 'Lx3'}, {'stmt': 'Lx4'}]})),
        ('return', dict(two, **{'/r/a/sub/x.bare': [{'stmt': 'Lx'}, inc('lib.bare'), 'ret', {'stmt': 'Lnever'}]})),
    ]
    out = []
    for name, files in faults:
        first = case('/r/a/main.bare', '/usr/lib/', [{'stmt': 'Lf1'}, inc('sub/x.bare'), {'stmt': 'Lf2'}], files, max_statements=4 if name == 'budget' else BIG)
        for nxt_root, nxt_prefix in (('/r/a/main.bare', '/usr/lib/'), (None, '/usr/lib/'), ('/r/b/main.bare', None), ('http://h/p/main.bare', '/usr/lib/'),
                                     ('/r/a/main.bare', None)):
            for style in ('minimal', 'full'):
                for none_as in ('absent', 'none'):
                    runs = [first, case(nxt_root, nxt_prefix, good, two), case('/r/a/main.bare', '/usr/lib/', good, two)]
                    out.append({'kind': 'reuse', 'runs': json.loads(json.dumps(runs)), 'style': style, 'none_as': none_as, 'junk': False,
                                'debug': False, 'strsub': False})
    return out


def reuse_impl(session):
    """All runs of the session, in order, on ONE options dict. -> [observation]"""
    m = fw.impl()
    parser, runtime, options_mod = m['parser'], m['runtime'], m['options']
    cur = {'files': {}, 'events': [], 'bad': []}

    def fetch_fn(request):
        if not isinstance(request, dict) or set(request) != {'url'}:
            cur['bad'].append(repr(request))
        url = request['url']
        cur['events'].append(['fetch', url])
        f = cur['files'].get(url)
        if f is None or f['kind'] == 'missing':
            return None
        if f['kind'] == 'throws':
            raise make_exc(f.get('exc', 'ValueError'))
        return f['text']

    def log_fn(text):
        if not (session['debug'] and isinstance(text, str) and text.startswith('BareScript:')):      # the linter's lines (debug mode) are C18's business
            cur['events'].append(['exec', text])

    globals_ = dict(REUSE_JUNK) if session['junk'] else {}
    options = {'globals': globals_, 'logFn': log_fn}
    if session['debug']:
        options['debug'] = True
    wrap = _StrSub if session['strsub'] else str

    def put(key, value):
        if value is None and session['none_as'] == 'absent':
            options.pop(key, None)
        else:
            options[key] = value
    out = []
    prev = None
    for case in session['runs']:
        cur['files'], cur['events'], cur['bad'] = case['files'], [], []
        globals_['trace'] = ''
        full = prev is None or session['style'] == 'full'
        options['maxStatements'] = case['maxStatements']
        if full or case['urlFn'] != prev['urlFn']:
            put('urlFn', None if case['urlFn'] is None else functools.partial(options_mod.url_file_relative, wrap(case['urlFn'])))
        if full or case['systemPrefix'] != prev['systemPrefix']:
            put('systemPrefix', None if case['systemPrefix'] is None else wrap(case['systemPrefix']))
        if full or case['fetch'] != prev['fetch']:
            put('fetchFn', fetch_fn if case['fetch'] else None)
        prev = case
        kept = {k: options.get(k, '<absent>') for k in REUSE_KEPT}
        outcome = {'kind': 'ok'}
        try:
            script = parser.parse_script(case['root']['text'])
            runtime.execute_script(script, options)
        except parser.BareScriptParserError as exc:
            first = str(exc).partition('\n')[0]
            if first.startswith('Included from "') and first.endswith('"'):
                outcome = {'kind': 'parseError', 'url': first[len('Included from "'):-1]}
            else:
                outcome = {'kind': 'other', 'class': 'BareScriptParserError', 'msg': str(exc)}
        except runtime.BareScriptRuntimeError as exc:
            msg = str(exc)
            if msg.startswith('Include of "') and msg.endswith('" failed'):
                outcome = {'kind': 'includeFailed', 'url': msg[len('Include of "'):-len('" failed')]}
            elif msg == f'Exceeded maximum script statements ({case["maxStatements"]})':
                outcome = {'kind': 'exceeded'}
            else:
                outcome = {'kind': 'other', 'class': 'BareScriptRuntimeError', 'msg': msg}
        except BaseException as exc:  # pylint: disable=broad-except
            outcome = {'kind': 'other', 'class': type(exc).__name__, 'msg': safe_text(exc)}
        changed = sorted(k for k in REUSE_KEPT if options.get(k, '<absent>') is not kept[k])
        out.append({'events': cur['events'], 'outcome': outcome, 'trace': globals_.get('trace'), 'statementCount': options.get('statementCount'),
                    'changed': changed, 'bad_requests': cur['bad'][:3]})
    return out


def reuse_verdicts(session):
    """-> [(expected, actual, ok?)] per run: the property for that script alone, = the same script with fresh options"""
    out = []
    for case, obs in zip(session['runs'], reuse_impl(session)):
        want, ok = spec_obs(case, obs)
        got = {'events': obs['events'], 'outcome': obs['outcome'], 'trace': obs['trace']}
        fresh = run_impl(case)
        if ok and any(fresh[k] != obs[k] for k in ('events', 'outcome', 'trace')):
            want, ok = {'with fresh options': {k: fresh[k] for k in ('events', 'outcome', 'trace')}}, False
        if ok and obs['changed']:
            want, got, ok = 'the options the host passed are the same objects after the run', {'changed': obs['changed']}, False
        if ok and obs['bad_requests']:
            want, got, ok = "{'url': <resolved>}", obs['bad_requests'], False
        out.append((want, got, ok, obs))
    return out


def reuse_sub(session, idxs):
    return dict(session, runs=[session['runs'][i] for i in idxs])


def reuse_shrink(session, k):
    """The shortest history before run k that still makes it fail: none, one earlier run, all of them."""
    for idxs in [[k]] + [[j, k] for j in reversed(range(k))] + [list(range(k + 1))]:
        sub = reuse_sub(session, idxs)
        v = reuse_verdicts(sub)
        if not v[-1][2]:
            return sub, v[-1]
    return None, None


def stream_reuse(ctx):
    st = ctx.stream('reuse', 'sessions of 2-5 execute_script runs sharing ONE options dict and ONE globals dict (random include trees of the include '
                             'stream: URL / path / no root location, system prefixes, missing / throwing / broken files, cycles under a budget; the '
                             'same location names hold different texts from run to run); between runs the host changes only what differs (or '
                             'everything), removes a key or sets it to None; a third of the runs are made to fail (fault, then continue); host '
                             'globals named like option keys, debug mode, str subclasses for the root location and the system prefix. Oracles: '
                             'every run = the property for that script alone = the same script with fresh options (events, outcome, trace); the '
                             'option values the host passed are the same objects afterwards [reuse-options]. Each run is compared with the Lean '
                             'include machine; the shared options dict / the history is host-only: implementation-side oracle. non-trivial = a '
                             'run after the first that made at least one fetch request')
    rng = ctx.rng('reuse')
    sessions = [('hand', s) for s in reuse_hand()] + [('random', reuse_session(rng)) for _ in range(ctx.scale(300, 6000))]
    resps = iter(ctx.driver.batch([model_request(c) for _, s in sessions for c in s['runs']]))
    reported = 0
    for origin, session in sessions:
        verdicts = reuse_verdicts(session)
        earlier_fault = False
        for k, (case, (want, got, ok, obs)) in enumerate(zip(session['runs'], verdicts)):
            resp = next(resps)
            tags = case_tags(case, obs) + [origin, 'run:' + str(min(k, 3)) + ('+' if k >= 3 else ''), 'style:' + session['style']]
            if earlier_fault:
                tags.append('after-a-failed-run')
            if k and case['urlFn'] == session['runs'][k - 1]['urlFn']:
                tags.append('urlFn-untouched-by-host')
            if k and case['urlFn'] is None and session['runs'][k - 1]['urlFn'] is not None:
                tags.append('located-then-unlocated')
            tags += [t for t in ('junk', 'debug', 'strsub') if session[t]]
            st.case({'session': id_of(session), 'run': k, 'root': case['root']['text'], 'urlFn': case['urlFn'], 'prefix': case['systemPrefix']},
                    nontrivial=k > 0 and any(e[0] == 'fetch' for e in obs['events']), tags=tags)
            ctx.compare('reuse', {'run': k, 'case': case}, {x: obs[x] for x in ('events', 'outcome', 'trace', 'statementCount')}, model_obs(resp))
            if obs['outcome']['kind'] != 'ok':
                earlier_fault = True
            if not ok and reported < 10:
                reported += 1
                sub, v = reuse_shrink(session, k)
                if sub is None:
                    sub, v = reuse_sub(session, list(range(k + 1))), (want, got, ok, obs)
                ctx.witness('reuse-options', sub, v[0], v[1])


def id_of(session):
    """a short deterministic name of a session for the coverage record"""
    return [session['style'], session['none_as'], len(session['runs']), session['runs'][0]['root']['text'][:60]]


# ---------------------------------------------------------------------------------------------------------------------
# hostcfg stream: host-level forms of the configuration the Lean model cannot express
# ---------------------------------------------------------------------------------------------------------------------
#
# The property quantifies over configurations. The Lean machine knows a system prefix (a string or none), a root location
# and "the fetch of this location throws"; it cannot express WHICH object the host passed. This stream runs include trees
# under the host-level forms of the same configurations:
#   * option values that are configured but false in a truth test: systemPrefix == '' (system includes live at the root of
#     the fetch name space: resolve('', 'lib.bare') == 'lib.bare'; the Lean machine does express this one), urlFn / fetchFn /
#     logFn given as callable objects whose bool() is False or whose len() is 0; str subclasses for the locations;
#   * debug mode on / off, a log function present / absent / one that rejects the lines of debug mode (texts that produce no
#     such line are used with it: only systemLog statements and includes);
#   * fetch functions that throw anything a host can throw (HOST_THROWS).
# Oracle (implementation side): the property statement, spec_obs - fetch requests and log lines in order, the outcome naming
# the resolved location - which does not depend on any of these forms.

HOST_LOGS = ['record', 'absent', 'rejects-debug', 'falsy']
HOST_BASES = [('http://h/app/main.bare', 'http://h/system/'), ('/srv/app/main.bare', '/usr/share/bare/'), ('app/main.bare', 'system/'),
              (None, 'system/'), ('/srv/app/main.bare', ''), ('http://h/app/main.bare', ''), ('app/main.bare', ''), (None, ''),
              ('/srv/app/main.bare', None)]


def host_hand_tree(root_loc, prefix, failing, kind, host):
    """main -> lib/a.bare -> sub/b.bare, system includes at every level (texts: systemLog and include statements only - the linter
    has nothing to say about them, so debug mode logs nothing of its own while they run)."""
    def inc(*refs):
        return {'inc': [[r[1:-1], True] if r.startswith('<') else [r, False] for r in refs]}
    root = [{'stmt': 'Lm1'}, inc('lib/a.bare'), {'stmt': 'Lm2'}, inc('<sys.bare>'), {'stmt': 'Lm3'}]
    loc_a = spec_location(prefix, root_loc, 'lib/a.bare', False)
    loc_b = spec_location(prefix, loc_a, 'sub/b.bare', False)
    loc_s = spec_location(prefix, root_loc, 'sys.bare', True)
    loc_s2 = spec_location(prefix, loc_a, 'sys2.bare', True)
    loc_s3 = spec_location(prefix, loc_b, 'deep/sys3.bare', True)
    loc_s4 = spec_location(prefix, loc_s3, 'sys4.bare', False)
    texts = {
        loc_a: [{'stmt': 'La1'}, inc('sub/b.bare', '<sys2.bare>'), {'stmt': 'La2'}],
        loc_b: [{'stmt': 'Lb1'}, inc('<deep/sys3.bare>'), {'stmt': 'Lb2'}],
        loc_s: [{'stmt': 'Ls1'}],
        loc_s2: [{'stmt': 'Ls2'}, 'ret', {'stmt': 'Lnever'}],
        loc_s3: [{'stmt': 'Ls3'}, inc('sys4.bare')],
        loc_s4: [{'stmt': 'Ls4'}],
    }
    files = {loc: {'kind': 'text', 'items': items, 'text': '\n'.join(mc_render(items)) + '\n'} for loc, items in texts.items()}
    bad = {'a': loc_a, 'b': loc_b, 'sys': loc_s, 'sys2': loc_s2, 'sys3': loc_s3, 'sys4': loc_s4}.get(failing)
    if bad is not None:
        files[bad] = ({'kind': 'missing'} if kind == 'missing' else {'kind': 'broken', 'text': "systemLog('Lk')\nx = 1 +\n"} if kind == 'broken'
                      else {'kind': 'throws', 'exc': kind})
    return {'files': files, 'root': {'items': root, 'text': '\n'.join(mc_render(root, True))}, 'urlFn': root_loc, 'systemPrefix': prefix,
            'maxStatements': BIG, 'fetch': True, 'acyclic': True, 'host': host}


def host_hand_cases(full):
    """Every base x failing location x debug x log form; the kind of failure runs through all kinds (quick) / every kind with every
    combination (thorough). Plus the callables that are false in a truth test, on trees without a failure."""
    kinds = ['missing', 'broken'] + HOST_THROWS
    out, k = [], 0
    for (root_loc, prefix), failing, debug, log in itertools.product(HOST_BASES, ['a', 'b', 'sys', 'sys2', 'sys3', 'sys4'], [True, False], HOST_LOGS):
        for kind in (kinds if full else [kinds[k % len(kinds)], kinds[(k * 7 + 3) % len(kinds)]]):
            host = {'debug': debug, 'log': log}
            if k % 5 == 0:
                host['wrap'] = 'strsub'
            if k % 3 == 0:
                host['fetchFn'] = ['falsy', 'empty'][k % 2]
            out.append(host_hand_tree(root_loc, prefix, failing, kind, host))
        k += 1
    for (root_loc, prefix), debug, log, fetch_form, url_form in itertools.product(HOST_BASES, [False, True], HOST_LOGS + ['empty'],
                                                                                   ['plain', 'falsy', 'empty'], ['plain', 'falsy', 'empty']):
        if not full and (fetch_form, url_form, log) not in (('plain', 'plain', 'record'), ('falsy', 'falsy', 'falsy'), ('empty', 'empty', 'empty'),
                                                             ('falsy', 'plain', 'absent'), ('plain', 'empty', 'rejects-debug'),
                                                             ('plain', 'falsy', 'record')):
            continue
        out.append(host_hand_tree(root_loc, prefix, None, None, {'debug': debug, 'log': log, 'fetchFn': fetch_form, 'urlFn': url_form}))
    return out


class HostTreeGen(TreeGen):
    """The random include trees of the include stream under a random host-level configuration: an empty system prefix half of the time
    and more system includes (at every depth, under URL / path / no base), throwing fetch functions of every kind."""

    def __init__(self, rng):
        super().__init__(rng, max_depth=3)
        self.prefix = rng.choice(['', '', '', '', None, '/usr/lib/bare/', 'sysdir/', 'https://sys.example/lib/', 'x'])
        self.p_fail = rng.choice([0, 0.1, 0.3, 0.5])
        self.fetch = True
        self.host = {'debug': rng.random() < 0.5, 'log': rng.choice(['record', 'record', 'absent', 'falsy', 'empty']),
                     'fetchFn': rng.choice(['plain', 'plain', 'falsy', 'empty']), 'urlFn': rng.choice(['plain', 'plain', 'falsy', 'empty']),
                     'wrap': rng.choice(['str', 'str', 'strsub'])}
        if not self.host['debug'] and rng.random() < 0.3:
            self.host['log'] = 'rejects-debug'                        # no debug mode: no such line
        self.p_system = rng.choice([0.0, 0.3, 0.6])

    def make_ref(self, ancestors):
        ref, system = super().make_ref(ancestors)
        if not system and '>' not in ref and self.rng.random() < self.p_system and not (self.cycle and ref in ancestors):
            system = True
        return ref, system

    def build(self):
        case = super().build()
        for f in case['files'].values():
            if f['kind'] == 'throws' and self.rng.random() < 0.85:
                f['exc'] = self.rng.choice(HOST_THROWS)
        case['host'] = self.host
        return case


def stream_hostcfg(ctx):
    st = ctx.stream('hostcfg', 'include trees under host-level forms of the configuration (the Lean machine knows a prefix string, a root location and '
                               '"this fetch throws"; which OBJECT the host passed is host-only: implementation-side oracle spec_obs, the model is '
                               'compared on the events it can express): systemPrefix == "" (configured, false in a truth test) with system includes '
                               'at depth 0-3 under URL / absolute / relative / no base; urlFn / fetchFn / logFn as callables with bool() False or '
                               'len() 0; str subclasses; debug on/off; log function recording / absent / rejecting debug lines; fetch functions '
                               f'throwing {len(HOST_THROWS)} kinds of exception (I/O errors, non-Exception BaseExceptions, exceptions whose text cannot '
                               'be produced, the library\'s own error classes with decoy texts). Hand tree main -> lib/a -> sub/b with system '
                               'includes at every level x 9 bases x 6 failing locations x debug x 4 log forms (failure kind rotating in quick, every '
                               'kind in thorough) + random trees of the include stream generator. non-trivial = a fetch request was made')
    cases = [('hand', c) for c in host_hand_cases(ctx.tier != 'quick')]
    rng = ctx.rng('hostcfg')
    for _ in range(ctx.scale(1500, 25000)):
        cases.append(('random', HostTreeGen(rng).build()))
    resps = ctx.driver.batch([model_request(c) for _, c in cases])
    for (origin, case), resp in zip(cases, resps):
        check_case(ctx, st, case, resp, origin)


# ---------------------------------------------------------------------------------------------------------------------
# longloc stream: SCALE axis on the length of locations (file and directory names, prefixes, root locations, broken lines)
# ---------------------------------------------------------------------------------------------------------------------

LONG_SIZES = [0, 1, 2, 9, 10, 11, 16, 17, 30, 40, 64, 65, 90, 100, 101, 104, 105, 119, 120, 121, 128, 129, 256, 1000]


class LongTreeGen(TreeGen):
    """Include trees whose names are padded: resolved locations from a few to several thousand characters, most trees with a file that
    cannot be fetched or does not parse - the errors must name the WHOLE resolved location."""

    def __init__(self, rng):
        super().__init__(rng, max_depth=rng.choice([1, 2, 3, 4]), max_fan=2)
        self.cycle = False
        self.max_statements = BIG
        self.fetch = True
        self.p_fail = rng.choice([0.15, 0.3, 0.5])
        self.size = rng.choice(LONG_SIZES[8:])
        if self.root_loc and rng.random() < 0.4:
            d, sep, name = self.root_loc.rpartition('/')
            self.root_loc = d + sep + 'R' + self.pad() + '/' + name if sep else self.pad() + self.root_loc
        if self.prefix and self.prefix.endswith('/') and rng.random() < 0.4:
            self.prefix += 'P' + self.pad() + '/'

    def pad(self):
        rng = self.rng
        n = rng.choice([self.size, self.size, rng.choice(LONG_SIZES)]) + rng.choice([0, 0, 0, -1, 1, rng.randint(-8, 8)])
        word = rng.choice(['x', 'descriptive-directory-name-', 'Ab0_', 'é', 'a b'])
        return (word * (n // len(word) + 1))[:max(n, 0)]

    def fresh(self):
        self.counter += 1
        return f'n{self.counter}{self.pad()}.bare'

    def build(self):
        case = super().build()
        rng = self.rng
        for f in case['files'].values():
            if f['kind'] == 'broken' and rng.random() < 0.4:
                # the broken line itself is long (the parser shows a window of it) / the text before it is
                n = rng.choice(LONG_SIZES[10:])
                f['text'] = rng.choice(['v' + 'x' * n + ' = (1', "b = '" + 'y' * n, 'x = 1 + ' + '2 + ' * (n // 4), '# ' + 'c' * n + '\nx = 1 +'])
        return case


def stream_longloc(ctx):
    st = ctx.stream('longloc', 'SCALE axis on names: random include trees (depth 1-4, fan-out <= 2) whose file and directory names, root location '
                               'and system prefix are padded to ' + ', '.join(str(n) for n in LONG_SIZES) + ' characters (+-1, +-8; ASCII, spaces, '
                               'non-ASCII), so resolved locations run from a few to several thousand characters; 15-50 % of the files are missing / '
                               'throwing / broken (broken lines up to 1000 characters): the runtime error and the parser error must name the whole '
                               'resolved location; compared with the Lean machine and with the property reading; non-trivial = a fetch request was made')
    rng = ctx.rng('longloc')
    cases = [LongTreeGen(rng).build() for _ in range(ctx.scale(700, 8000))]
    resps = ctx.driver.batch([model_request(c) for c in cases])
    for case, resp in zip(cases, resps):
        check_case(ctx, st, case, resp, 'random')


# ---------------------------------------------------------------------------------------------------------------------

def streams(ctx):
    url_pairs, inc_cases = load_corpus()
    for fn, args in ((stream_url, (url_pairs,)), (stream_include, (inc_cases,)), (stream_hostcfg, ()), (stream_longloc, ()), (stream_reexec, ()),
                     (stream_reuse, ()), (stream_cli, ()), (stream_mcli, ())):
        t0 = ctx.elapsed()
        fn(ctx, *args)
        if os.environ.get('VERIF_C17_TIMING'):
            print(f'C17 {fn.__name__}: {ctx.elapsed() - t0:.1f}s', file=sys.stderr)
    # the smallest witness first; one whose history could not be recorded (it will not fail when replayed alone) last
    ctx.witnesses.sort(key=lambda w: (isinstance(w['input'], dict) and 'not recorded' in str(w['input'].get('history', '')),
                                      len(json.dumps(w, default=str))))


def search(ctx):
    """Something tying the model to the code broke and the streams produced no witness: spend more on the two oracles."""
    rng = ctx.rng('search')
    for b, r in itertools.product(URL_BASES, URL_REFS):
        impl = impl_resolve(b, r)
        want = spec_resolve(b, r)
        if impl != want:
            ctx.witness('resolve-spec', [b, r], want, impl)
            return
    gens = [TreeGen] * ctx.scale(4000, 40000) + [HostTreeGen] * ctx.scale(3000, 30000) + [LongTreeGen] * ctx.scale(1500, 15000)
    for case in itertools.chain(host_hand_cases(True), (gen(rng).build() for gen in gens)):
        impl = run_impl(case)
        want, ok = spec_obs(case, impl)
        if not ok:
            ctx.witness('include-tree', case, want, {'events': impl['events'], 'outcome': impl['outcome'], 'trace': impl['trace']})
            return
    for case in rx_hand_cases() + [LoopGen(rng).build() for _ in range(ctx.scale(4000, 40000))]:
        exp, got, ok, _ = rx_verdict(case)
        if not ok:
            ctx.witness('include-reexec', case, exp, got)
            return
    for session in reuse_hand() + [reuse_session(rng) for _ in range(ctx.scale(2000, 20000))]:
        for k, v in enumerate(reuse_verdicts(session)):
            if not v[2]:
                sub, v2 = reuse_shrink(session, k)
                ctx.witness('reuse-options', sub or session, (v2 or v)[0], (v2 or v)[1])
                return


def replay(witness):
    oracle = witness.get('oracle')
    inp = witness['input']
    if oracle == 'resolve-spec':
        return impl_resolve(inp[0], inp[1]) != witness['expected']
    if oracle == 'resolve-idempotent':
        again = impl_resolve(inp[0], inp[1])
        return not isinstance(again, str) or spec_segments(again) != spec_segments(inp[1]) or impl_resolve('/other/place.bare', again) != again
    if oracle == 'cli-include-tree':
        return _replay_cli(inp, witness)
    if oracle == 'include-reexec':
        return not rx_verdict(inp)[2]
    if oracle in ('cli-multi', 'cli-fresh-process'):
        return _replay_mcli(inp, oracle)
    if oracle == 'reuse-options':
        return any(not v[2] for v in reuse_verdicts(inp))
    impl = run_impl(inp)
    if oracle == 'include-tree':
        _, ok = spec_obs(inp, impl)
        return not ok
    if oracle == 'include-parse-error-names-text':
        got = {k: impl['extra'].get(k) for k in ('rest', 'error', 'line', 'column_number', 'line_number')}
        return got != witness['expected']
    if oracle == 'fetch-request-shape':
        return bool(impl['extra'].get('bad_requests'))
    if oracle == 'urlfn-restored':
        return bool(impl['extra'].get('urlFn_changed'))
    return True


def _replay_cli(inp, witness):
    tmp = tempfile.mkdtemp(prefix='verif_c17_replay_', dir=os.environ.get('VERIF_TMP') or None)
    try:
        if inp.get('cli') != 'random':
            return any(name == inp.get('cli') and want != got for name, want, got in cli_hand(tmp))
        # the original temporary directory is gone: move the tree below the new one
        old_root = inp['tmp']

        def move(path):
            return path.replace(old_root, tmp) if path else path
        files = {move(k): v for k, v in inp['files'].items()}
        main = move(inp['urlFn'])
        for path, text in list(files.items()) + [(main, "trace = ''\n" + inp['root'] + "\nsystemLog('TRACE=' + trace)\n")]:
            if text is None or path.startswith(':bare-include:') or not inside(path, tmp):
                continue
            os.makedirs(os.path.dirname(path) or '.', exist_ok=True)
            with open(path, 'w', encoding='utf-8', newline='') as fh:
                fh.write(text)
        lines, code = run_cli([main])
        want = witness['expected']
        stdout = [move(ln) for ln in want['stdout']]
        return lines[:len(stdout)] != stdout or (want['exit'] is not None and code != want['exit'])
    finally:
        shutil.rmtree(tmp, ignore_errors=True)


LEVEL_TEXT = ('Theorems for include trees of any depth and fan-out over any file map (induction on gas and on statement lists): the Python-shaped '
              'resolver equals the property-shaped one on all strings; the include machine (options record threaded and copied as in '
              'runtime.py) produces exactly the depth-first program-order event sequence of the tree cut at the first location that cannot be '
              'loaded, with the outcome naming that resolved location; all effects act on one global state in trace order; a return ends only '
              'its own script; urlFn of the includer is invariant. The model is tied to url_file_relative by an exhaustive small-alphabet '
              'enumeration and to execute_script / the CLI by rendered random include trees compared event by event.')
LEVEL_NOTE = ('Trusted: Lean kernel; correspondence harness and its tree renderer. Modelled not verified: CPython 3.12 POSIX pathlib/posixpath/str.rfind '
              '(hence resolve_spec_partial), the re engine for ^[a-z]+:. The machine abstracts non-include statements to opaque effects and '
              'parsing to ok/broken; statement budget outcomes are compared with the implementation but are C09\'s subject.')


# extension: ONE machine - the include semantics of Machine.execute is the C17 include model (DESIGN 13.9)
from props import c17x  # noqa: E402  pylint: disable=wrong-import-position
c17x.EXTRA_ROOTS = ['Drv.C17X']
fw.attach_extension(globals(), c17x)
