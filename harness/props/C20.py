"""C20 - diffLines from the shipped include library reconstructs both inputs; every shipped include is lint-clean."""

import contextlib
import datetime
import enum
import hashlib
import io
import itertools
import json
import functools
import multiprocessing
import os
import re
import subprocess
import sys
import time
import unicodedata

import fw

ID = 'C20'
LEVEL = 'proof'
LEAN_TARGETS = ['BareProofs.C20', 'BareProofs.C20Includes', 'BareProofs.C20Prog']
DRIVER = 'drv_c20'
DRIVER_ROOT = 'Drv.C20'
GEN = ['Includes', 'DiffBare']
THEOREMS = [
    'C20.fuel_irrelevant', 'C20.diffLoop_some',
    'C20.diff_left', 'C20.diff_right', 'C20.diff_blocks_nonempty',
    'C20.diff_identical_inputs', 'C20.diff_identical_only_identical', 'C20.diff_empty',
    'C20.diffInputs_left', 'C20.diffInputs_right', 'C20.diffInputs_nonempty', 'C20.diffInputs_identical',
    'C20.splitLines_ne_nil', 'C20.lines_of_line_array',
    'C20.outer_spec', 'C20.outer_isSome', 'C20.outer_mono',
    'C20.includes_parse_validate_lintclean',
    # program level (BareProofs/C20Prog*.lean): the statement list parse_script returns for the shipped diff.bare (Gen/DiffBare,
    # regenerated on every run), executed by the jump machine Machine.execute / Machine.callValue over hostDiff
    'C20Prog.include_binds', 'C20Prog.diffLines_exact', 'C20Prog.include_then_call',
    'C20Prog.prog_left', 'C20Prog.prog_right', 'C20Prog.prog_blocks_nonempty', 'C20Prog.prog_identical',
    'C20Prog.body_halts', 'C20Prog.main39', 'C20Prog.split_input', 'C20Prog.ident_block', 'C20Prog.scan_left',
]
ASSUMPTIONS = [
    'PROGRAM LEVEL (C20Prog.*): the theorems are about Gen.diffBare = the statement list the real parse_script returns for the working-tree '
    'include/diff.bare (harness/extract.py gen_diffbare, converted like every implementation model sent to the drivers: progen.canon_script, '
    'names through Name.ofString, function definitions numbered in source order), run by the machine model of runtime.py '
    '(BareModel/Machine.lean, tied to the interpreter by the C01/C08/C09 streams) with the verified library model Lib as its library '
    '(BareModel/HostLib.lean, tied by the C15 streams). A change of the parsed program makes BareProofs/C20ProgCode (rfl against the '
    'generated term) fail to compile; the check then searches for a failing input',
    'regexNew / regexSplit are NOT in the Lib model (no regex engine in Lean): hostDiff = hostLib + regexNew(p) = a regex value that remembers p + '
    'regexSplit(re, s) = a fresh array holding Diff.splitLines s when the pattern of re is \\r?\\n (every other pattern/arity: null). '
    '"CPython re.split(\'\\r?\\n\', s) = cut at every LF, a CR directly before it belongs to the separator" is a MODELLED ASSUMPTION, '
    'correspondence-checked by the diff-inputs stream (LF/CRLF/CR/mixed texts against the real interpreter)',
    'schemaParse (the documentation model diffTypes, not used by diffLines) is not modelled: the include binds diffTypes to null in the machine model',
    'diffLines_exact assumes the globals of the call satisfy GOK: the 13 library names diff.bare uses are bound to the library functions, '
    'diffRegexLineSplit is the regex the include bound, and the variable False (diff.bare:107 spells the literal false with a capital: an '
    'ordinary undefined variable) is unbound; include_binds proves GOK for the globals the include leaves behind when it starts from the '
    'library-injected globals; the arguments are a string or an array of strings (other values are outside the property)',
    'the link functional model Diff.diffLines <-> the BareScript source is now the theorem C20Prog.diffLines_exact (all inputs, unbounded '
    'length); the diff / diff-inputs / diff-hosts streams remain as an independent end-to-end test of the same link on the real interpreter '
    '(exhaustive for short inputs) and are what finds a concrete failing input when the program changes',
    'lines are compared with == on strings (value_compare on two str) = code point equality of Lean String (tied by the diff-twins stream: '
    'lines equal up to normalisation form / case / invisible affixes / numeric reading, all planes; surrogate code points cannot reach the '
    'driver and run with the oracle only)',
    'the result of diffLines does not depend on the script that includes the library and calls it beyond GOK (theorem: any state, any heap, '
    'any configuration over hostDiff); the diff-hosts stream runs the real interpreter on a family of caller scripts',
    'host configuration is outside the Lean model (no host objects, no globals beyond GOK, no histories): the diff-globals / diff-history / diff-runs / '
    'diff-boundary / diff-prior-use streams check it on the implementation only (reconstruction oracle; the model answer for the same lines is '
    'compared as well). Not generated: globals that rebind the library functions diff.bare calls or the names it owns at top level '
    '(diffSentinel, diffTypes, diffRegexLineSplit, diffLines), and faults inside the library\'s own top-level code (an include cut off by the '
    'statement limit leaves diffSentinel set and the rest undefined: reported, not part of the stream; diff-runs generates such runs '
    'but judges only later runs whose globals are new, cleared or stripped of the library\'s names)',
    'Gen/Includes records what parse_script / validate_script / lint_script of the working tree report for each include/*.bare; the '
    'decided theorem is about that table (regenerated on every run), not about a Lean model of the linter',
]
TRUSTED = ['bare.py include fetcher (_fetch_include, _FETCH_INCLUDE_PREFIX) is used as the CLI uses it (fetchFn/systemPrefix options)',
           'harness/extract.py gen_diffbare + progen.canon_script: the Lean term Gen.diffBare is the parsed diff.bare (semantic extraction through '
           'the real parse_script, not text scraping); BareModel/HostDiff.lean: the regexNew/regexSplit entries of hostDiff']

SKIPPED = {'skipped': 'not run: diffLines exceeded its statement budget on earlier inputs'}
MAX_OVERRUNS = 3


def statement_budget(left, right):
    """A generous bound on the statements diffLines may execute (measured: <= 4 per look-ahead step, <= |L|+|R|+1 passes):
    ~70x what the unchanged script needs, yet small enough that a non-terminating variant cannot hang the check."""
    n, m = len(ref_lines(left)), len(ref_lines(right))
    return 1000 + (n + m + 2) * (4 * (n + 1) * (m + 1) + 60)

ALPHABET = 'abc'
KINDS = ('Identical', 'Add', 'Remove')

SCRIPT_FULL = 'include <diff.bare>\nreturn diffLines(l, r)'
SCRIPT_INCLUDE = 'include <diff.bare>'
SCRIPT_CALL = 'return diffLines(l, r)'
# the call made from a script with control flow of its own (a helper with an if, a loop and an if/else whose jumps are taken BEFORE
# the call): the generated label names of the caller and of diff.bare coincide, and must not be confused
SCRIPT_EMBEDDED = '''\
function pick(m):
    if m == 'x':
        return 1
    endif
    return 2
endfunction
n = 0
while n < 2:
    n = n + 1
endwhile
include <diff.bare>
if pick(mode) == 1:
    d = diffLines(l, r)
else:
    for unused in arrayNew(1, 2):
        d = diffLines(l, r)
    endfor
endif
return d'''


# ---------------------------------------------------------------------------------------------------------------------
# the HOST family: every way a script can load the shipped library and reach diffLines
# ---------------------------------------------------------------------------------------------------------------------
# The property speaks about "diffLines (include <diff.bare>)" - whatever the including script looks like.  A host is
#   form  (what the include statement names)  x  place (where the include statement stands)  x  call (how diffLines is reached);
# the script gets the two inputs as the globals l and r and returns the result of diffLines(l, r).

# a user library of one file that itself includes the shipped one (nested include; served by Runner._fetch_with_wrapper)
WRAPPER_BARE = '''\
wrapperLoads = if(systemGlobalGet('wrapperLoads') != null, wrapperLoads, 0) + 1
include <diff.bare>
'''

# the names the library owns (its globals) and the names diffLines uses as locals: a caller may use any of them for its own purposes
LIB_GLOBALS = ('diffSentinel', 'diffTypes', 'diffRegexLineSplit')
LIB_LOCALS = ('diffs', 'leftLines', 'leftPart', 'rightLines', 'rightPart', 'ixLeft', 'ixRight', 'leftLength', 'rightLength',
              'identicalLines', 'foundMatch', 'ixLeftTmp', 'ixRightTmp')
JUNK = ("arrayNew('junk')", '7', 'true', "'junk'", "objectNew('type', 'Add')")

INC_FORMS = {
    'system': ['include <diff.bare>'],
    'system-twice': ['include <diff.bare>', 'include <diff.bare>'],
    'path': ["include 'diff.bare'"],                                    # the shipped file named by its path (urlFn: relative to the script)
    'wrapper': ["include 'wrapper.bare'"],                              # through a user library that includes it
    'wrapper+system': ["include 'wrapper.bare'", 'include <diff.bare>'],
}


def _ind(lines, n=1):
    return ['    ' * n + ln for ln in lines]


def _junk_assignments(names):
    return ['%s = %s' % (name, JUNK[i % len(JUNK)]) for i, name in enumerate(names)]


def _place(place, inc, defs, main):
    """-> the caller's lines: the include lines `inc` standing at `place`, the caller's definitions `defs`, its main part `main`."""
    if place == 'top':
        return inc + defs + main
    if place == 'late':            # the calling functions are defined before the library is loaded
        return defs + ['hostReady = 1'] + inc + main
    if place == 'if':
        return ['if l != 0:'] + _ind(inc) + ['endif'] + defs + main
    if place == 'else':
        return ['if l == 0:', '    hostNope = 1', 'else:'] + _ind(inc) + ['endif'] + defs + main
    if place == 'while':           # the include statement is executed twice (second time: the library's own sentinel returns)
        return ['hostK = 0', 'while hostK < 2:'] + _ind(inc) + ['    hostK = hostK + 1', 'endwhile'] + defs + main
    if place == 'for':
        return ['for hostPart in arrayNew(1, 2):'] + _ind(inc) + ['endfor'] + defs + main
    if place == 'loader':          # a function that loads the libraries
        return ['function hostLoad():'] + _ind(inc) + ['endfunction', 'hostLoad()'] + defs + main
    if place == 'loader-locals':   # ... that has parameters and locals named like the library's own names
        return ['function hostLoad(left, right, diffs):'] + _ind(_junk_assignments(LIB_GLOBALS[1:]) + inc + ['return diffTypes']) + \
               ['endfunction', "hostLoaded = hostLoad('p', 'q')"] + defs + main
    if place == 'loader-nested':   # ... called by another function, twice
        return ['function hostLoad():'] + _ind(inc) + ['endfunction', 'function hostBoot(n):', '    if n > 0:', '        hostLoad()',
                                                        '        hostBoot(n - 1)', '    endif', 'endfunction', 'hostBoot(2)'] + defs + main
    raise ValueError(place)


PLACES = ('top', 'late', 'if', 'else', 'while', 'for', 'loader', 'loader-locals', 'loader-nested')


def _call(call, inner):
    """-> (definitions, main part) of a caller that returns diffLines(l, r); `inner`: include lines standing INSIDE the calling
    function (or None when this call style has no function of its own)."""
    inner = inner or []
    if call == 'plain':
        return [], ['return diffLines(l, r)']
    if call == 'fn':
        return ['function hostGo(a, b):'] + _ind(inner + ['return diffLines(a, b)']) + ['endfunction'], ['return hostGo(l, r)']
    if call == 'fn-shadow':        # the caller's parameters and locals are named like the library's globals and diffLines' locals
        return ['function hostGo(left, right):'] + _ind(_junk_assignments(LIB_GLOBALS[1:] + LIB_LOCALS) + inner +
                                                        ['hostOut = diffLines(left, right)', 'return hostOut']) + ['endfunction'], \
               ['return hostGo(l, r)']
    if call == 'fn-crossed':       # parameter names crossed over
        return ['function hostGo(right, left):'] + _ind(inner + ['for rightPart in arrayNew(1):', '    leftLines = diffLines(right, left)',
                                                                 'endfor', 'return leftLines']) + ['endfunction'], ['return hostGo(l, r)']
    if call == 'fn-deep':          # the call is three function calls deep, each level with locals of its own
        return ['function hostGo(a, b, depth):'] + _ind(inner + ['ixLeft = depth', 'if depth > 0:', '    return hostGo(a, b, depth - 1)',
                                                                 'endif', 'return diffLines(a, b)']) + ['endfunction'], \
               ['return hostGo(l, r, 2)']
    if call == 'globals-junk':     # globals named like diffLines' locals hold junk
        return [], _junk_assignments(LIB_LOCALS + ('left', 'right')) + ['return diffLines(l, r)']
    if call == 'twice':            # earlier calls (other arguments, result modified afterwards) must leave no trace
        return [], ['hostFirst = diffLines(r, l)', "arrayPush(hostFirst, 'junk')", 'hostSame = diffLines(l, l)',
                    'hostSecond = diffLines(l, r)', 'hostThird = diffLines(r, r)', 'return hostSecond']
    if call == 'value':            # the function taken as a value
        return [], ["hostFn = systemGlobalGet('diffLines')", 'return hostFn(l, r)']
    if call == 'jumps':            # control flow of the caller's own, jumps taken before the call (as SCRIPT_EMBEDDED)
        return ['function hostPick(m):', "    if m == 'x':", '        return 1', '    endif', '    return 2', 'endfunction'], \
               ['hostN = 0', 'while hostN < 2:', '    hostN = hostN + 1', 'endwhile', "if hostPick('y') == 1:", '    hostD = 0', 'else:',
                '    for hostUnused in arrayNew(1, 2):', '        hostD = diffLines(l, r)', '    endfor', 'endif', 'return hostD']
    raise ValueError(call)


CALLS = ('plain', 'fn', 'fn-shadow', 'fn-crossed', 'fn-deep', 'globals-junk', 'twice', 'value', 'jumps')
FN_CALLS = ('fn', 'fn-shadow', 'fn-crossed', 'fn-deep')


def build_hosts():
    """-> [(name, script text)]: `system` form in every place with every call style (and inside every calling function); the other
    forms in every place with the two basic call styles."""
    hosts = []
    for form, inc in INC_FORMS.items():
        calls = CALLS if form == 'system' else ('plain', 'fn')
        for place in PLACES:
            for call in calls:
                defs, main = _call(call, None)
                hosts.append(('%s/%s/%s' % (form, place, call), '\n'.join(_place(place, inc, defs, main))))
        for call in (FN_CALLS if form == 'system' else ('fn', 'fn-shadow')):
            defs, main = _call(call, inc)
            hosts.append(('%s/in-caller/%s' % (form, call), '\n'.join(defs + main)))
    return hosts


# ---------------------------------------------------------------------------------------------------------------------
# running the REAL script through the REAL interpreter
# ---------------------------------------------------------------------------------------------------------------------

class Runner:
    """`fresh`: what `bare -c 'include <diff.bare>' ...` does - the include is fetched (CLI fetcher), parsed and executed for
    every case, in fresh globals.  `shared`: the include is executed once (same way), every case only executes
    `return diffLines(l, r)` in those globals (about 8x faster; used for the big exhaustive enumerations)."""

    def __init__(self):
        m = fw.impl()
        self.parser, self.runtime, self.bare = m['parser'], m['runtime'], m['bare']
        self.full = None
        self.emb = None
        self.call = None
        self.globals = None
        self.hosts = {}
        self.overruns = 0

    def _options(self, globals_, limit):
        return {'fetchFn': self.bare._fetch_include, 'systemPrefix': self.bare._FETCH_INCLUDE_PREFIX,  # pylint: disable=protected-access
                'globals': globals_, 'maxStatements': limit}

    def _error(self, exc):
        if 'Exceeded maximum script statements' in str(exc):
            self.overruns += 1
        return {'error': type(exc).__name__ + ': ' + str(exc)[:120]}

    def fresh(self, left, right):
        if self.overruns >= MAX_OVERRUNS:
            return SKIPPED
        try:
            if self.full is None:
                self.full = self.parser.parse_script(SCRIPT_FULL)
            return canon(self.runtime.execute_script(self.full, self._options({'l': clone(left), 'r': clone(right)},
                                                                              statement_budget(left, right))))
        except Exception as exc:  # pylint: disable=broad-except
            return self._error(exc)

    def embedded(self, left, right, mode=None):
        if self.overruns >= MAX_OVERRUNS:
            return SKIPPED
        try:
            if self.emb is None:
                self.emb = self.parser.parse_script(SCRIPT_EMBEDDED)
            if mode is None:
                mode = 'x' if (len(left) + len(right)) % 2 else 'y'
            return canon(self.runtime.execute_script(self.emb, self._options({'l': clone(left), 'r': clone(right), 'mode': mode},
                                                                             2 * statement_budget(left, right) + 100)))
        except Exception as exc:  # pylint: disable=broad-except
            return self._error(exc)

    def host(self, left, right, script):
        """diffLines reached through a caller script of the host family (HOSTS): the library is fetched, parsed and executed
        afresh, wherever the include statement of that caller stands.  fetchFn = the CLI fetcher, which also serves the
        one-file user library `wrapper.bare`; urlFn as the CLI sets it for a script file standing next to the shipped includes."""
        if self.overruns >= MAX_OVERRUNS:
            return SKIPPED
        try:
            if script not in self.hosts:
                self.hosts[script] = self.parser.parse_script(script)
            opts = self._options({'l': clone(left), 'r': clone(right)}, 3 * statement_budget(left, right) + 1000)
            opts['fetchFn'] = self._fetch_with_wrapper
            opts['urlFn'] = functools.partial(fw.impl()['options'].url_file_relative, os.path.join(self.include_dir(), 'main.bare'))
            return canon(self.runtime.execute_script(self.hosts[script], opts))
        except Exception as exc:  # pylint: disable=broad-except
            return self._error(exc)

    def include_dir(self):
        return os.path.join(os.path.dirname(os.path.abspath(self.bare.__file__)), 'include')

    def _fetch_with_wrapper(self, request):
        if request['url'].replace(os.sep, '/').endswith('/wrapper.bare') or request['url'] == 'wrapper.bare':
            return WRAPPER_BARE
        return self.bare._fetch_include(request)  # pylint: disable=protected-access

    def shared(self, left, right):
        if self.overruns >= MAX_OVERRUNS:
            return SKIPPED
        try:
            if self.globals is None:
                glob = {}
                self.runtime.execute_script(self.parser.parse_script(SCRIPT_INCLUDE), self._options(glob, 100000))
                self.call = self.parser.parse_script(SCRIPT_CALL)
                self.globals = glob
            self.globals['l'] = clone(left)
            self.globals['r'] = clone(right)
            return canon(self.runtime.execute_script(self.call, self._options(self.globals, statement_budget(left, right))))
        except Exception as exc:  # pylint: disable=broad-except
            return self._error(exc)


def clone(x):
    return list(x) if isinstance(x, list) else x


def canon(res):
    """Implementation result -> protocol form (or a small error form when it is not a list of difference objects)."""
    if not isinstance(res, list):
        return {'error': 'result is ' + type(res).__name__}
    out = []
    for blk in res:
        if not isinstance(blk, dict) or sorted(blk) != ['lines', 'type'] or not isinstance(blk['type'], str) \
                or not isinstance(blk['lines'], list) or not all(isinstance(x, str) for x in blk['lines']):
            return {'error': 'malformed block ' + json.dumps(blk, default=str, sort_keys=True)[:120]}
        out.append({'type': blk['type'], 'lines': list(blk['lines'])})
    return out


# ---------------------------------------------------------------------------------------------------------------------
# the property's own oracle (written from the property statement, independent of the Lean model)
# ---------------------------------------------------------------------------------------------------------------------

def ref_lines(arg):
    """The line list an argument of diffLines stands for (CRLF and LF end a line; array parts are split and concatenated)."""
    if isinstance(arg, str):
        return arg.replace('\r\n', '\n').split('\n')
    out = []
    for part in arg:
        out.extend(part.replace('\r\n', '\n').split('\n'))
    return out


def oracle(left, right, diffs):
    """-> None if the property holds for this result, else (oracle name, expected, actual)."""
    want_l, want_r = ref_lines(left), ref_lines(right)
    if isinstance(diffs, dict):
        return ('diff-result-is-a-difference-list', 'a list of {type, lines} objects', diffs)
    for blk in diffs:
        if blk['type'] not in KINDS:
            return ('diff-block-type', list(KINDS), blk)
        if not blk['lines']:
            return ('diff-blocks-nonempty', 'non-empty lines in every block', diffs)
    got_l = [ln for blk in diffs if blk['type'] in ('Identical', 'Remove') for ln in blk['lines']]
    got_r = [ln for blk in diffs if blk['type'] in ('Identical', 'Add') for ln in blk['lines']]
    if got_l != want_l:
        return ('diff-reconstructs-left', want_l, diffs)
    if got_r != want_r:
        return ('diff-reconstructs-right', want_r, diffs)
    if want_l == want_r:
        if any(blk['type'] != 'Identical' for blk in diffs):
            return ('diff-identical-inputs', 'Identical blocks only', diffs)
        if not want_l and diffs:
            return ('diff-empty-inputs', [], diffs)
    return None


def check_case(ctx, stream, runner_fn, case, model, mode, **extra):
    """One case: implementation vs model, and the oracle on the implementation. `model` may be None (no driver).
    `extra`: what replay needs besides the two inputs and the mode (the caller script of a host)."""
    left, right = case
    impl = runner_fn(left, right)
    if impl is SKIPPED:
        return impl
    inp = {'left': left, 'right': right, 'mode': mode}
    inp.update(extra)
    if model is not None:
        ctx.compare(stream, inp, impl, model)
    bad = oracle(left, right, impl)
    if bad is not None:
        ctx.witness(bad[0], inp, bad[1], bad[2])
    return impl


def model_out(resp):
    if resp.get('stuck') or 'diffs' not in resp:
        return {'model': resp}
    return resp['diffs']


# ---------------------------------------------------------------------------------------------------------------------
# generators
# ---------------------------------------------------------------------------------------------------------------------

def all_lists(kmax, alphabet=ALPHABET):
    return [list(t) for k in range(kmax + 1) for t in itertools.product(alphabet, repeat=k)]


def edit_pair(rng, alphabet, nmax):
    """A realistic pair: a base and an edited copy (insert / delete / replace / move runs of lines)."""
    base = [rng.choice(alphabet) for _ in range(rng.randint(0, nmax))]
    other = list(base)
    for _ in range(rng.randint(0, 6)):
        kind = rng.randint(0, 3)
        pos = rng.randint(0, len(other))
        run = rng.randint(1, 4)
        if kind == 0:
            other[pos:pos] = [rng.choice(alphabet) for _ in range(run)]
        elif kind == 1:
            del other[pos:pos + run]
        elif kind == 2:
            other[pos:pos + run] = [rng.choice(alphabet) for _ in range(run)]
        else:
            chunk = other[pos:pos + run]
            del other[pos:pos + run]
            ins = rng.randint(0, len(other))
            other[ins:ins] = chunk
    other = other[:nmax]
    return (base, other) if rng.random() < 0.5 else (other, base)


LINE_POOLS = [list('ab'), list('abc'), list('abcdef'), ['', 'a', 'b'], ['x', 'xx', ' x', 'x ', ''],
              ['line %d' % i for i in range(50)], ['é', '\U0001f600', 'a', '\r', 'a\r']]


def as_text(rng, lines):
    """Join lines into a text with LF / CRLF / mixed endings (lines must not be empty lists and hold no LF)."""
    style = rng.randint(0, 2)
    out = []
    for i, ln in enumerate(lines):
        if i:
            out.append('\n' if style == 0 else '\r\n' if style == 1 else rng.choice(['\n', '\r\n']))
        out.append(ln)
    return ''.join(out)


def as_chunks(rng, lines):
    """Group lines into array parts holding 1..3 lines each (joined by LF / CRLF)."""
    parts = []
    i = 0
    while i < len(lines):
        n = rng.randint(1, 3)
        parts.append(rng.choice(['\n', '\r\n']).join(lines[i:i + n]))
        i += n
    return parts


def clean_for_text(lines):
    """A trailing CR of a line would merge with the LF that follows it when the lines are joined into a text."""
    return [ln.rstrip('\r') if ln.endswith('\r') else ln for ln in lines]


def input_cases(ctx):
    """corpus, then random line arrays (<= 40 lines), texts with LF / CRLF / mixed endings, arrays of multi-line chunks,
    mixed string/array pairs, raw random texts"""
    path = os.path.join(fw.VERIF, 'harness', 'corpus', 'C20.jsonl')
    if os.path.exists(path):
        with open(path, encoding='utf-8') as fh:
            for ln in fh:
                if ln.strip():
                    row = json.loads(ln)
                    yield 'corpus', row['left'], row['right']
    rng = ctx.rng('diff-inputs')
    for _ in range(ctx.scale(3000, 12000)):
        pool = rng.choice(LINE_POOLS)
        nmax = rng.choice([3, 8, 20, 40])
        if rng.random() < 0.7:
            left, right = edit_pair(rng, pool, nmax)
        else:
            left = [rng.choice(pool) for _ in range(rng.randint(0, nmax))]
            right = [rng.choice(pool) for _ in range(rng.randint(0, nmax))]
        shape = rng.randint(0, 5)
        if shape <= 1:
            yield 'lines', left, right
        elif shape == 2:
            left, right = clean_for_text(left), clean_for_text(right)
            yield 'text', as_text(rng, left or ['']), as_text(rng, right or [''])
        elif shape == 3:
            left, right = clean_for_text(left), clean_for_text(right)
            yield 'chunks', as_chunks(rng, left), as_chunks(rng, right)
        elif shape == 4:
            left, right = clean_for_text(left), clean_for_text(right)
            if rng.random() < 0.5:
                yield 'mixed', as_text(rng, left or ['']), as_chunks(rng, right)
            else:
                yield 'mixed', as_chunks(rng, left), as_text(rng, right or [''])
        else:
            def raw():
                return ''.join(rng.choice(['a', 'b', 'c', '\n', '\r\n', '\r', '']) for _ in range(rng.randint(0, 24)))
            yield 'rawtext', raw(), raw()


# ---------------------------------------------------------------------------------------------------------------------
# TWIN lines: different strings that some tempting canonicalisation would identify
# ---------------------------------------------------------------------------------------------------------------------
# "Exactly the left lines / exactly the right lines" means code point for code point.  A twin class is a set of pairwise DIFFERENT
# strings that are "the same text" under a Unicode normalisation form, a case mapping, trimming / invisible characters, a numeric
# reading or a length limit.  Words come from every plane: a fixed list of notorious ones plus random words over all characters that
# have a decomposition, cased letters of bicameral scripts (astral ones included), combining marks, private-use, noncharacters, controls.

TWIN_WORDS = [
    'caf\u00e9', '\u00c5ngstr\u00f6m', '\u212b', '\u2126', '\u212a', 'ng\u01b0\u1eddi Vi\u1ec7t', 'a\u0323\u0301', 'q\u0307\u0323', '\u1e9b\u0323',
    '\ufb01n', '\u2460', '\uff76\uff9e', '\u304c', '\ud55c\uae00', '\u01c6', 'Stra\u00dfe', '\u0130stanbul', 'I\u0131i', '\u03c3\u03bf\u03c6\u03cc\u03c2',
    '\u0390', '\u1f88', '\u0958', '\u0f73', '\u2adc', '\U0001d15e', '\U0001d400', '\U0002f800', '\U000110ab', '\U00010400\U00010428', '\U0001e900',
    'x\u00b2', '\u00bd', '\u2025', '\u3000a', '\u0644\u0627', '\ufdfa', 'Line', 'line 1', '1', '10', '0.5', '-0', '1e3', 'true', 'null', 'a', '',
]
NORMAL_FORMS = ('NFC', 'NFD', 'NFKC', 'NFKD')
CASE_MAPS = (str.lower, str.upper, str.casefold, str.title, str.swapcase, str.capitalize)
# affixes an editor, a terminal or a "trim" would not show: blanks, no-break / zero-width / BOM / soft hyphen / NUL, and the characters
# that str.splitlines() - but not the library's \r?\n - takes for line ends
AFFIXES = (' ', '\t', '\u00a0', '\u3000', '\u200b', '\u200d', '\ufeff', '\u00ad', '\x00', '\x0b', '\x0c', '\x1c', '\x1e', '\x85', '\u2028', '\u2029', '\r ')
TWIN_KINDS = ('nf', 'case', 'affix', 'number', 'length')


def line_ok(s):
    """usable as one line in every input shape: no LF, no CR at the end (it would join the LF that follows), no surrogate code points"""
    return '\n' not in s and not s.endswith('\r') and not any('\ud800' <= ch <= '\udfff' for ch in s)


def twin_class(word, kind):
    """-> pairwise different spellings (word first) that the canonicalisation `kind` would identify"""
    out = [word]

    def add(x):
        if x not in out and line_ok(x):
            out.append(x)
    if kind == 'nf':
        for form in NORMAL_FORMS:
            add(unicodedata.normalize(form, word))
        # canonically equivalent orders of two combining marks of different classes
        add(unicodedata.normalize('NFD', word) + '\u0323\u0301')
        add(unicodedata.normalize('NFD', word) + '\u0301\u0323')
    elif kind == 'case':
        for fn in CASE_MAPS:
            add(fn(word))
            add(fn(unicodedata.normalize('NFD', word)))
    elif kind == 'affix':
        for i, fix in enumerate(AFFIXES):
            add(word + fix)
            if i % 2:
                add(fix + word)
    elif kind == 'number':
        for x in (word + '.0', '0' + word, '+' + word, word + 'e0', ' ' + word, word + ' ', word.translate({48 + d: 0xff10 + d for d in range(10)}),
                  word.translate({48 + d: 0x0660 + d for d in range(10)}), word.replace('.', ','), word.lstrip('-')):
            add(x)
    elif kind == 'length':      # a prefix relation, and long lines that differ only at the very end / in the middle
        long = (word or 'x') * 40
        for x in (word + word[-1:], word[:-1], long + 'a', long + 'b', long, long + 'a' + long, long + 'b' + long, word + '\U0010ffff', word + '\uffff'):
            add(x)
    return out


@functools.lru_cache(maxsize=None)
def unicode_tables():
    """(characters that have a canonical or compatibility decomposition, cased letters outside ASCII, combining marks) of this
    Python's Unicode database, over all 17 planes"""
    decomposable, cased, marks = [], [], []
    for cp in range(0x80, 0x110000):
        if 0xd800 <= cp <= 0xdfff:
            continue
        ch = chr(cp)
        if unicodedata.decomposition(ch):
            decomposable.append(ch)
        if unicodedata.combining(ch):
            marks.append(ch)
        elif ch.lower() != ch or ch.upper() != ch:
            cased.append(ch)
    # Hangul syllables decompose algorithmically (no decomposition field)
    decomposable.extend(chr(cp) for cp in range(0xac00, 0xd7a4, 37))
    return decomposable, cased, marks


ODD_CHARS = ['\x00', '\x01', '\x1f', '\x7f', '\x85', '\u2028', '\ue000', '\uf8ff', '\ufffd', '\ufffe', '\uffff', '\U0001f600', '\U0001fffe',
             '\U000e0001', '\U000f0000', '\U000ffffd', '\U00100000', '\U0010fffd', '\U0010ffff', '\r', '"', '\\']


def random_word(rng):
    """a short word over all planes: decomposable characters, cased letters, base letter + combining marks, odd characters"""
    decomposable, cased, marks = unicode_tables()
    out = []
    for _ in range(rng.randint(1, 4)):
        k = rng.randint(0, 5)
        if k == 0:
            out.append(rng.choice(decomposable))
        elif k == 1:
            out.append(rng.choice(cased))
        elif k == 2:
            out.append(rng.choice('aeinoAEINO') + ''.join(rng.choice(marks) for _ in range(rng.randint(1, 2))))
        elif k == 3:
            out.append(rng.choice(ODD_CHARS))
        elif k == 4:
            out.append(chr(rng.choice([rng.randint(0xa0, 0xd7ff), rng.randint(0xe000, 0xffff), rng.randint(0x10000, 0x10ffff)])))
        else:
            out.append(rng.choice('abcXYZ019 -_'))
    word = ''.join(out)
    return word if line_ok(word) else word + '.'


def twin_vocabulary(rng, kind, n_classes):
    """-> n_classes twin classes of one kind (each with >= 2 spellings where the kind applies to the word)"""
    classes = []
    tries = 0
    while len(classes) < n_classes and tries < 40:
        tries += 1
        word = rng.choice(TWIN_WORDS) if rng.random() < 0.4 else random_word(rng)
        if kind == 'number' and not any(ch.isdigit() for ch in word):
            word = rng.choice(['1', '10', '0.5', '-0', '1e3', '7', '42', '3.25'])
        cls = twin_class(word, kind)
        if len(cls) >= 2 or tries > 30:
            classes.append(cls[:rng.choice([2, 3, 6, 30])])
    return classes


def twin_random_cases(ctx, count):
    """random pairs whose aligned lines are twins: a base sequence of classes and an edited copy, every occurrence spelled independently"""
    rng = ctx.rng('diff-twins')
    for _ in range(count):
        kind = rng.choice(TWIN_KINDS)
        classes = twin_vocabulary(rng, kind, rng.randint(1, 4))
        ids = list(range(len(classes)))
        base, other = edit_pair(rng, ids, rng.choice([2, 4, 8, 16]))
        if rng.random() < 0.3:
            other = list(base)            # same classes throughout: only the spellings differ
        left = [rng.choice(classes[i]) for i in base]
        right = [rng.choice(classes[i]) for i in other]
        shape = rng.randint(0, 3)
        if shape == 0:
            yield kind, 'lines', left, right
        elif shape == 1:
            yield kind, 'text', as_text(rng, left or ['']), as_text(rng, right or [''])
        elif shape == 2:
            yield kind, 'chunks', as_chunks(rng, left), as_chunks(rng, right)
        else:
            yield kind, 'mixed', as_text(rng, left or ['']), as_chunks(rng, right)


def twin_sweep_cases(ctx):
    """deterministic: every notorious word (plus some random ones) x every kind x every spelling y of its class against the word x itself -
    alone, between common lines, doubled, and as texts"""
    rng = ctx.rng('diff-twins-sweep')
    words = TWIN_WORDS + [random_word(rng) for _ in range(ctx.scale(40, 400))]
    cap = ctx.scale(6, 40)
    for idx, word in enumerate(words):
        for kind in TWIN_KINDS:
            if kind == 'number' and not (word and word[0].isdigit()):
                continue
            cls = twin_class(word, kind)
            stride = -(-(len(cls) - 1) // cap) or 1         # more spellings than the cap: every stride-th, the offset moving with the word
            for y in cls[1:][idx % stride::stride]:
                x = word if line_ok(word) else cls[0] + '.'
                yield kind, 'lines', [x], [y]
                yield kind, 'lines', ['k', x, 'm'], ['k', y, 'm']
                yield kind, 'lines', [x, x, y], [x, y, y]
                yield kind, 'text', x + '\n' + y + '\r\n' + x, y + '\r\n' + y + '\n' + x
                yield kind, 'mixed', [y + '\n' + x], x + '\n' + x


# surrogate code points cannot travel to the Lean driver (JSON in UTF-8): these cases run with the oracle only
SURROGATE_CASES = [(['\ud800'], ['\udc00']), (['a\ud800'], ['a']), (['\udfff', 'a'], ['\ud800', 'a']), ('\ud83d\n\ude00', '\ude00\n\ud83d'),
                   (['\ud800', '\U00010000'], ['\U00010000', '\ud800'])]


def size_tag(left, right):
    n = max(len(ref_lines(left)), len(ref_lines(right)))
    return 'lines<=%d' % next(b for b in (1, 2, 4, 8, 16, 32, 64, 10 ** 9) if n <= b)


# ---------------------------------------------------------------------------------------------------------------------
# the exhaustive enumeration (optionally spread over worker processes, deterministic partition by left-list index)
# ---------------------------------------------------------------------------------------------------------------------

def _exhaustive_chunk(args):
    """All pairs (lists[i], r) for i in [lo, hi), r in lists: implementation (shared globals) vs model + oracle.
    -> (cases, disagreements, witnesses, kinds histogram, driver requests)"""
    kmax, lo, hi, exe = args
    lists = all_lists(kmax)
    runner = Runner()
    pairs = [(lists[i], r) for i in range(lo, hi) for r in lists]
    models = [None] * len(pairs)
    nreq = 0
    if exe is not None:
        drv = fw.Driver(exe)
        resps = drv.batch([{'op': 'diff', 'left': l, 'right': r} for l, r in pairs])
        models = [model_out(x) for x in resps]
        nreq = len(pairs)
    dis, wit, hist = [], [], {}
    for (left, right), model in zip(pairs, models):
        impl = runner.shared(left, right)
        if impl is SKIPPED:
            hist['skipped'] = hist.get('skipped', 0) + 1
            continue
        if model is not None and impl != model and len(dis) < 50:
            dis.append(({'left': left, 'right': right, 'mode': 'shared'}, impl, model))
        bad = oracle(left, right, impl)
        if bad is not None and len(wit) < 20:
            wit.append((bad[0], {'left': left, 'right': right, 'mode': 'shared'}, bad[1], bad[2]))
        key = 'blocks=%d' % len(impl) if isinstance(impl, list) else 'error'
        hist[key] = hist.get(key, 0) + 1
    return len(pairs), dis, wit, hist, nreq


def run_exhaustive(ctx, kmax, workers):
    st = ctx.stream('diff', 'ALL pairs of line lists of length <= %d over the alphabet {a,b,c} as array arguments, the real diff.bare run '
                            'by the real interpreter (include executed once through the CLI fetcher, then `return diffLines(l, r)` per '
                            'pair) vs the Lean model + reconstruction oracle; non-trivial = the two lists differ and neither is empty' % kmax)
    lists = all_lists(kmax)
    n = len(lists)
    exe = DRIVER if ctx.driver is not None else None
    step = max(1, n // (workers * 8)) if workers > 1 else n
    tasks = [(kmax, lo, min(n, lo + step), exe) for lo in range(0, n, step)]
    if workers > 1:
        with multiprocessing.get_context('fork').Pool(workers) as pool:
            results = pool.map(_exhaustive_chunk, tasks, chunksize=1)
    else:
        results = [_exhaustive_chunk(t) for t in tasks]
    total = 0
    for cnt, dis, wit, hist, nreq in results:
        total += cnt
        ctx.disagreements_checked += cnt if exe is not None else 0
        if ctx.driver is not None:
            ctx.driver.requests += nreq
        for case, impl, model in dis:
            ctx.disagree('diff', case, impl, model)
        for name, inp, want, got in wit:
            ctx.witness(name, inp, want, got)
        for key, val in hist.items():
            st.hist[key] = st.hist.get(key, 0) + val
    # coverage bookkeeping (cheap; done here so that worker processes need not ship every case back)
    for left in lists:
        for right in lists:
            st.case([left, right], nontrivial=bool(left) and bool(right) and left != right)
    st.exhaustive = (total == n * n and 'skipped' not in st.hist)
    return total


# ---------------------------------------------------------------------------------------------------------------------
# streams
# ---------------------------------------------------------------------------------------------------------------------

def stream_inputs(ctx, runner):
    st = ctx.stream('diff-inputs', 'corpus + random pairs (edited copies and independent lists, <= 40 lines, 7 line pools) as line arrays, '
                                   'texts with LF / CRLF / mixed endings, arrays of multi-line chunks, string-vs-array pairs and raw texts '
                                   'with lone CRs; every case through `include <diff.bare>` fetched, parsed and executed afresh with the '
                                   'CLI fetcher options; non-trivial = the two line lists differ and neither is empty')
    cases = list(input_cases(ctx))
    models = [None] * len(cases)
    if ctx.driver is not None:
        resps = ctx.driver.batch([{'op': 'diff', 'left': l, 'right': r} for _, l, r in cases])
        models = [model_out(x) for x in resps]
        # the string-only entry point of the driver must agree with the generic one
        texts = [(l, r) for _, l, r in cases if isinstance(l, str) and isinstance(r, str)]
        resps2 = ctx.driver.batch([{'op': 'diffText', 'left': l, 'right': r} for l, r in texts])
        by_pair = {json.dumps([l, r]): model_out(x) for (l, r), x in zip(texts, resps2)}
    for (shape, left, right), model in zip(cases, models):
        want_l, want_r = ref_lines(left), ref_lines(right)
        impl = check_case(ctx, 'diff-inputs', runner.fresh, (left, right), model, 'fresh')
        if impl is SKIPPED:
            st.case([left, right], nontrivial=False, tags=['skipped'])
            continue
        if model is not None and isinstance(left, str) and isinstance(right, str):
            ctx.compare('diff-inputs', {'left': left, 'right': right, 'mode': 'diffText'}, impl, by_pair[json.dumps([left, right])])
        st.case([left, right], nontrivial=bool(want_l) and bool(want_r) and want_l != want_r,
                tags=[shape, size_tag(left, right), 'blocks=%s' % (min(len(impl), 9) if isinstance(impl, list) else 'error')])
    st.exhaustive = False


SCALE_SIZES = (0, 1, 2, 9, 10, 11, 16, 17, 64, 65, 100, 101, 128, 129, 200, 300)


def scale_cases(ctx):
    """SIZE axis (round 8: fast paths that only differ beyond a size no small example reaches): for each size n the pair kinds identical,
    one replaced line at the start / middle / end, k appended lines, a CRLF text against its LF copy, the same lines as one array and as
    one text; independent lists only up to 65 lines (the look-ahead is quadratic)."""
    rng = ctx.rng('diff-scale')
    for n in SCALE_SIZES:
        base = ['line %d' % (i % 97) for i in range(n)]
        yield 'identical', n, list(base), list(base)
        if n:
            for where, pos in (('start', 0), ('middle', n // 2), ('end', n - 1)):
                other = list(base)
                other[pos] = 'changed'
                yield 'replace-' + where, n, list(base), other
            yield 'append', n, list(base), base + ['tail %d' % i for i in range(1 + n % 3)]
            yield 'prepend', n, ['head'] + base, list(base)
            yield 'crlf-vs-lf', n, '\r\n'.join(base) + '\r\n', '\n'.join(base) + '\n'
            yield 'array-vs-text', n, list(base), '\n'.join(base)
        if n <= 65:
            yield 'independent', n, [rng.choice('abc') for _ in range(n)], [rng.choice('abc') for _ in range(n)]


def stream_scale(ctx, runner):
    st = ctx.stream('diff-scale', 'SIZE axis: line counts %s x pair kinds (identical, one replaced line at start / middle / end, appended / '
                                  'prepended lines, CRLF text vs LF copy, array vs text, independent lists up to 65 lines), each through a fresh '
                                  '`include <diff.bare>`; the reconstruction / non-empty-block / identical-inputs oracles on the '
                                  'implementation, the Lean function as model; non-trivial = more than 17 lines' % (SCALE_SIZES,))
    cases = list(scale_cases(ctx))
    models = [None] * len(cases)
    if ctx.driver is not None:
        models = [model_out(x) for x in ctx.driver.batch([{'op': 'diff', 'left': l, 'right': r} for _, _, l, r in cases])]
    for (kind, n, left, right), model in zip(cases, models):
        impl = check_case(ctx, 'diff-scale', runner.fresh, (left, right), model, 'fresh')
        if impl is SKIPPED:
            st.case([kind, n], nontrivial=False, tags=['skipped'])
            continue
        st.case([kind, n], nontrivial=n > 17, tags=[kind, 'n=%d' % n, 'blocks=%s' % (min(len(impl), 9) if isinstance(impl, list) else 'error')])
    st.exhaustive = False


def stream_cli_path(ctx, runner, kmax):
    st = ctx.stream('diff-cli', 'ALL pairs of line lists of length <= %d over {a,b,c}, every pair through the full CLI path (include fetched, '
                                'parsed and executed afresh): must equal the model and the shared-globals run; and once more called from a script '
                                'with control flow of its own (helper with an if, a while loop, an if/else and a for loop around the call, '
                                'jumps taken before the call): same oracle and model; non-trivial as in `diff`' % kmax)
    lists = all_lists(kmax)
    pairs = [(l, r) for l in lists for r in lists]
    models = [None] * len(pairs)
    if ctx.driver is not None:
        models = [model_out(x) for x in ctx.driver.batch([{'op': 'diff', 'left': l, 'right': r} for l, r in pairs])]
    for (left, right), model in zip(pairs, models):
        impl = check_case(ctx, 'diff-cli', runner.fresh, (left, right), model, 'fresh')
        if impl is SKIPPED:
            st.case([left, right], nontrivial=False, tags=['skipped'])
            continue
        again = runner.shared(left, right)
        if again is not SKIPPED:
            ctx.compare('diff-cli', {'left': left, 'right': right, 'mode': 'fresh-vs-shared'}, impl, again)
        check_case(ctx, 'diff-cli', runner.embedded, (left, right), model, 'embedded')
        st.case([left, right], nontrivial=bool(left) and bool(right) and left != right,
                tags=['blocks=%s' % (len(impl) if isinstance(impl, list) else 'error')])
    st.exhaustive = 'skipped' not in st.hist


def blocks_tag(impl):
    return 'blocks=%s' % (min(len(impl), 9) if isinstance(impl, list) else 'error')


def stream_twins(ctx, runner):
    st = ctx.stream('diff-twins', 'lines that are DIFFERENT strings but equal under a Unicode normalisation form (NFC/NFD/NFKC/NFKD, mark '
                                  'order), a case mapping, blank / invisible / line-separator-like affixes, a numeric reading or a length limit: '
                                  'a deterministic sweep (every notorious word and random words over all 17 planes x every kind x every '
                                  'spelling against the word: alone, between common lines, doubled, as texts; shared globals) and random '
                                  'edited pairs whose occurrences are spelled independently (lines / texts / chunks / mixed; fresh include); '
                                  'model + reconstruction oracle; lone-surrogate lines with the oracle only; non-trivial = the line lists differ')
    sweep = [(k, sh, l, r, 'shared') for k, sh, l, r in twin_sweep_cases(ctx)]
    rand = [(k, sh, l, r, 'fresh') for k, sh, l, r in twin_random_cases(ctx, ctx.scale(1200, 8000))]
    cases = sweep + rand
    models = [None] * len(cases)
    if ctx.driver is not None:
        models = [model_out(x) for x in ctx.driver.batch([{'op': 'diff', 'left': l, 'right': r} for _, _, l, r, _ in cases])]
    cases += [('surrogate', 'lines' if isinstance(l, list) else 'text', l, r, 'fresh') for l, r in SURROGATE_CASES]
    models += [None] * len(SURROGATE_CASES)
    for (kind, shape, left, right, mode), model in zip(cases, models):
        impl = check_case(ctx, 'diff-twins', runner.shared if mode == 'shared' else runner.fresh, (left, right), model, mode)
        if impl is SKIPPED:
            st.case([left, right], nontrivial=False, tags=['skipped'])
            continue
        want_l, want_r = ref_lines(left), ref_lines(right)
        planes = {ord(ch) >> 16 for part in (left if isinstance(left, list) else [left]) for ch in part}
        st.case([left, right], nontrivial=want_l != want_r,
                tags=['kind=' + kind, shape, mode, blocks_tag(impl), 'plane>=1' if max(planes, default=0) >= 1 else 'plane=0'])
    st.exhaustive = False


HOST_PROBES = [
    (['a', 'b', 'c'], ['a', 'c', 'd']), ('a\r\nb\r\nc', 'a\nb\n'), ([], ['a']), (['a\nb', 'c'], 'a\nc'), ('same\ntext', 'same\ntext'),
    (['caf\u00e9', 'x'], ['cafe\u0301', 'x']), (['b', 'a', 'a'], ['a', 'b', 'a']), ('', []),
]


def host_pool(ctx):
    """the rotating cases of the host stream: random inputs of every shape (diff-inputs generator) interleaved with twin pairs"""
    a = (c for c in input_cases(ctx) if c[0] != 'corpus')
    b = twin_random_cases(ctx, 10 ** 9)
    while True:
        for left, right in (next(a)[1:], next(b)[2:]):
            if len(ref_lines(left)) + len(ref_lines(right)) <= 24:      # every host run parses the library again: keep the diff itself short
                yield left, right


def corpus_pairs():
    path = os.path.join(fw.VERIF, 'harness', 'corpus', 'C20.jsonl')
    with open(path, encoding='utf-8') as fh:
        return [(row['left'], row['right']) for row in (json.loads(ln) for ln in fh if ln.strip())]


def stream_hosts(ctx, runner):
    hosts = build_hosts()
    st = ctx.stream('diff-hosts', '%d caller scripts = what the include statement names (<diff.bare>, twice, the shipped file by path, a '
                                  'user library that includes it, both) x where it stands (top level, after the callers\' definitions, in an if / '
                                  'else / while / for body, in a loader function - plain, with parameters and locals named like the library\'s '
                                  'names, nested and called twice -, inside the calling function) x how diffLines is reached (top level, from a '
                                  'function, with parameters / locals / globals named like the library\'s globals and diffLines\' locals, three '
                                  'calls deep, after other calls, as a function value, after jumps of the caller): every host on fixed probes%s '
                                  'and on its share of random inputs and twin pairs; model + reconstruction oracle; non-trivial = the line '
                                  'lists differ' % (len(hosts), '' if ctx.quick else ' and the corpus'))
    fixed = HOST_PROBES if ctx.quick else HOST_PROBES + corpus_pairs()
    pool = host_pool(ctx)
    work = []
    for name, text in hosts:
        for left, right in fixed:
            work.append((name, text, left, right))
        for _ in range(ctx.scale(5, 60)):
            left, right = next(pool)
            work.append((name, text, left, right))
    models = [None] * len(work)
    if ctx.driver is not None:
        models = [model_out(x) for x in ctx.driver.batch([{'op': 'diff', 'left': l, 'right': r} for _, _, l, r in work])]
    for (name, text, left, right), model in zip(work, models):
        impl = check_case(ctx, 'diff-hosts', lambda l, r, text=text: runner.host(l, r, text), (left, right), model, 'host', host=name, script=text)
        if impl is SKIPPED:
            st.case([name, left, right], nontrivial=False, tags=['skipped'])
            continue
        form, place, call = name.split('/')
        st.case([name, left, right], nontrivial=ref_lines(left) != ref_lines(right),
                tags=['form=' + form, 'place=' + place, 'call=' + call, blocks_tag(impl)])
    st.exhaustive = False



# ---------------------------------------------------------------------------------------------------------------------
# HOST BOUNDARY: globals that collide with names used inside the library, fault-then-continue histories, host values
# ---------------------------------------------------------------------------------------------------------------------
# The property is stated for "any two texts or line arrays" - whatever ELSE the embedding application keeps in the globals it runs
# its scripts with, whatever happened earlier with the same options / globals, and however the host reaches the function.  BareScript
# looks a variable up in the function's locals first and then in the GLOBALS: a name the library reads before (or without) assigning
# it on the path taken reads whatever the host - or an earlier script that shared the globals (CLI multi-script mode) - left there.

IN_L, IN_R = 'hostInL', 'hostInR'          # the globals that carry the two inputs (names the library does not use)
SCRIPT_FULL_G = 'include <diff.bare>\nreturn diffLines(%s, %s)' % (IN_L, IN_R)
SCRIPT_CALL_G = 'return diffLines(%s, %s)' % (IN_L, IN_R)
EXPR_CALL_G = 'diffLines(%s, %s)' % (IN_L, IN_R)

IDENT_RE = re.compile(r'^[A-Za-z_][A-Za-z0-9_]*$')
KEYWORDS = ('null', 'true', 'false', 'if')
# spellings of literals of other languages: ordinary (normally undefined) variables for BareScript, so a host global of that name is read
SPELLED = ('False', 'True', 'None', 'undefined')
# used when the shipped file cannot be parsed (the includes stream reports that)
FALLBACK_NAMES = LIB_LOCALS + ('left', 'right', 'False')


def _walk_expr(expr, acc):
    key = next(iter(expr))
    val = expr[key]
    if key == 'variable':
        acc['read'].add(val)
    elif key == 'string':
        if IDENT_RE.match(val):
            acc['literal'].add(val)
    elif key == 'function':
        acc['called'].add(val['name'])
        for arg in val.get('args') or ():
            _walk_expr(arg, acc)
    elif key == 'binary':
        _walk_expr(val['left'], acc)
        _walk_expr(val['right'], acc)
    elif key == 'unary':
        _walk_expr(val['expr'], acc)
    elif key == 'group':
        _walk_expr(val, acc)


def _walk_statements(statements, acc, depth):
    for stmt in statements:
        key = next(iter(stmt))
        val = stmt[key]
        if key == 'expr':
            if val.get('name') is not None:
                acc['top' if depth == 0 else 'local'].add(val['name'])
            _walk_expr(val['expr'], acc)
        elif key in ('jump', 'return'):
            if 'expr' in val:
                _walk_expr(val['expr'], acc)
        elif key == 'function':
            acc['top'].add(val['name'])                 # a function statement binds a global, wherever it stands
            acc['local'].update(val.get('args') or ())
            _walk_statements(val['statements'], acc, depth + 1)


@functools.lru_cache(maxsize=None)
def library_names():
    """The names the WORKING TREE's diff.bare uses (semantic: from the model parse_script returns for the shipped file):
    -> (collidable, free, literal-only).  collidable = variables read, locals / parameters / generated loop variables assigned inside functions and
    identifier-like string literals (systemGlobalGet('x') idiom), plus SPELLED, minus the names the library owns (what it assigns or
    defines at top level) and the functions it calls (a host that rebinds those replaces the library - outside the property);
    free = the collidable names the library never assigns (reading them IS reading a global: no model for a polluted run);
    literal-only = names that occur as string literals only."""
    m = fw.impl()
    acc = {k: set() for k in ('read', 'literal', 'called', 'top', 'local')}
    try:
        text = m['bare']._fetch_include({'url': m['bare']._FETCH_INCLUDE_PREFIX + 'diff.bare'})  # pylint: disable=protected-access
        _walk_statements(m['parser'].parse_script(text)['statements'], acc, 0)
    except Exception:  # pylint: disable=broad-except
        acc['read'].update(FALLBACK_NAMES)
    reserved = acc['top'] | acc['called'] | set(KEYWORDS) | {IN_L, IN_R}
    names = (acc['read'] | acc['local'] | acc['literal'] | set(SPELLED)) - reserved
    free = {n for n in names if n in acc['read'] and n not in acc['local']} | (set(SPELLED) & names)
    return tuple(sorted(names)), frozenset(free), frozenset(names - acc['read'] - acc['local'] - set(SPELLED))


class HostStr(str):
    """a host's own string class (e.g. a markup-safe or lazily translated string)"""


class HostInt(int):
    pass


class HostFloat(float):
    pass


class HostList(list):
    pass


class HostDict(dict):
    pass


def _host_fn(args, options):            # a host function with the library calling convention
    return ['h']


def _host_raiser(args, options):
    raise RuntimeError('host function failed')


# name -> (host value builder, the same value as a BareScript expression or None when only a host can create it)
VALUES = {
    'array': (lambda: ['zz', 'zy'], "arrayNew('zz', 'zy')"),
    'string': (lambda: 'junk', "'junk'"),
    'number': (lambda: 7, '7'),
    'float': (lambda: 2.5, '2.5'),
    'negative': (lambda: -1, '-1'),
    'true': (lambda: True, 'true'),
    'object': (lambda: {'type': 'Add', 'lines': ['q']}, "objectNew('type', 'Add', 'lines', arrayNew('q'))"),
    'function': (lambda: _host_fn, 'arrayNew'),
    'raiser': (lambda: _host_raiser, None),
    'datetime': (lambda: datetime.datetime(2020, 1, 2, 3, 4, 5), 'datetimeNew(2020, 1, 2, 3, 4, 5)'),
    'regex': (lambda: re.compile('x'), "regexNew('x')"),
    'strsub': (lambda: HostStr('junk'), None),
    'intsub': (lambda: HostInt(3), None),
    'listsub': (lambda: HostList(['zz']), None),
    'dictsub': (lambda: HostDict(type='Remove', lines=['q']), None),
    'zero': (lambda: 0, '0'),
    'empty-string': (lambda: '', "''"),
    'empty-array': (lambda: [], 'arrayNew()'),
    'empty-object': (lambda: {}, 'objectNew()'),
    'null': (lambda: None, 'null'),
    'false': (lambda: False, 'false'),
}
FALSY_VALUES = ('zero', 'empty-string', 'empty-array', 'null', 'false')
WHENS = ('host', 'prior-script', 'after-include', 'in-script')
SCRIPTED_WHENS = ('prior-script', 'in-script')

# one probe per way through the function: same / different last line, same / different first line, one side empty, nothing in common,
# equal inputs, texts and chunked arrays
GLOBAL_PROBES = [
    (['a', 'b', 'c'], ['a', 'x', 'c']), (['a', 'b', 'c'], ['a', 'b', 'd']), ('a\nb', 'a\nb\n'), (['a', 'b'], []), ([], ['a']), ([], []),
    ('same\ntext', 'same\ntext'), ('old', 'new'), (['a\nb', 'c'], 'a\nc'), (['b', 'a', 'a'], ['a', 'b', 'a']), (['x', 'a'], ['a']),
    (['a'], ['a', 'x']), ('x\r\na\r\nb', 'a\nb\ny'), (['k'], ['k']),
]


def _set_lines(names, vname):
    expr = VALUES[vname][1]
    return ["systemGlobalSet('%s', %s)" % (n, expr) for n in names]


def _pair_key(left, right):
    return json.dumps([left, right], ensure_ascii=True)


class HostRunner(Runner):
    """the real interpreter with host-side configuration around the call"""

    def __init__(self):
        super().__init__()
        self.parsed = {}

    def script(self, text):
        if text not in self.parsed:
            self.parsed[text] = self.parser.parse_script(text)
        return self.parsed[text]

    def polluted(self, left, right, names, vname, when):
        """one isolated case: fresh globals in which `names` hold the value `vname`, put there at the moment `when`"""
        if self.overruns >= MAX_OVERRUNS:
            return SKIPPED
        build = VALUES[vname][0]
        limit = statement_budget(left, right) + 100 + 2 * len(names)
        glob = {IN_L: clone(left), IN_R: clone(right)}
        try:
            if when == 'host':                  # host-created globals
                for n in names:
                    glob[n] = build()
                res = self.runtime.execute_script(self.script(SCRIPT_FULL_G), self._options(glob, limit))
            elif when == 'prior-script':        # an earlier script that ran with the same globals (new options each, as the CLI does)
                self.runtime.execute_script(self.script('\n'.join(_set_lines(names, vname))), self._options(glob, limit))
                res = self.runtime.execute_script(self.script(SCRIPT_FULL_G), self._options(glob, limit))
            elif when == 'after-include':       # the library is loaded, then the host sets its globals, then a script calls
                self.runtime.execute_script(self.script(SCRIPT_INCLUDE), self._options(glob, limit))
                for n in names:
                    glob[n] = build()
                res = self.runtime.execute_script(self.script(SCRIPT_CALL_G), self._options(glob, limit))
            elif when == 'in-script':           # the calling script itself owns globals of these names
                text = '\n'.join([SCRIPT_INCLUDE] + _set_lines(names, vname) + [SCRIPT_CALL_G])
                res = self.runtime.execute_script(self.script(text), self._options(glob, limit))
            else:
                raise ValueError(when)
            return canon(res)
        except Exception as exc:  # pylint: disable=broad-except
            return self._error(exc)

    def polluted_sequence(self, calls, names):
        """one set of globals (library included once while `names` hold the first value), then the calls [(value name, left, right)] one
        after the other; before every call the host puts its value of that call under `names`. -> one result per call"""
        glob = {n: VALUES[calls[0][0]][0]() for n in names} if calls else {}
        out = []
        try:
            self.runtime.execute_script(self.script(SCRIPT_INCLUDE), self._options(glob, 100000))
        except Exception as exc:  # pylint: disable=broad-except
            return [self._error(exc)] * len(calls)
        call = self.script(SCRIPT_CALL_G)
        for vname, left, right in calls:
            if self.overruns >= MAX_OVERRUNS:
                out.append(SKIPPED)
                continue
            build = VALUES[vname][0]
            for n in names:
                glob[n] = build()
            glob[IN_L], glob[IN_R] = clone(left), clone(right)
            try:
                out.append(canon(self.runtime.execute_script(call, self._options(glob, statement_budget(left, right)))))
            except Exception as exc:  # pylint: disable=broad-except
                out.append(self._error(exc))
        return out

    def cli(self, left, right, names, vname):
        """the real command line, multi-script mode (`bare -c ... -c ... -c ...`: one globals object for all scripts), in a process of
        its own with a timeout (the CLI has no statement limit option)"""
        def lit(x):
            return "jsonParse('" + json.dumps(x, ensure_ascii=True).replace('\\', '\\\\').replace("'", "\\'") + "')"
        argv = ['-c', '%s = %s' % (IN_L, lit(left)), '-c', '%s = %s' % (IN_R, lit(right))]
        for ln in _set_lines(names, vname):
            argv += ['-c', ln]
        argv += ['-c', SCRIPT_INCLUDE, '-c', "systemLog('RESULT ' + jsonStringify(%s))" % EXPR_CALL_G]
        src = 'import sys\nsys.path.insert(0, sys.argv.pop(1))\nfrom bare_script.bare import main\nmain(sys.argv[1:])\n'
        try:
            res = subprocess.run([sys.executable, '-c', src, fw.REPO_SRC] + argv, capture_output=True, text=True, timeout=60, check=False)
        except subprocess.TimeoutExpired:
            return {'error': 'bare CLI did not finish in 60 s'}
        for ln in res.stdout.splitlines():
            if ln.startswith('RESULT '):
                try:
                    return canon(json.loads(ln[len('RESULT '):]))
                except ValueError:
                    break
        return {'error': 'bare CLI exit %s: %s' % (res.returncode, (res.stdout + res.stderr)[-200:])}


def report(ctx, stream, inp, left, right, impl, model):
    """model comparison (when there is a model for this case) + the property oracle on one implementation result"""
    if impl is SKIPPED:
        return False
    if model is not None:
        ctx.compare(stream, inp, impl, model)
    bad = oracle(left, right, impl)
    if bad is not None:
        ctx.witness(bad[0], inp, bad[1], bad[2])
    return bad is not None


def models_for(ctx, pairs):
    """-> {pair key: model answer} (empty without a driver)"""
    if ctx.driver is None:
        return {}
    uniq = {}
    for left, right in pairs:
        uniq.setdefault(_pair_key(left, right), (left, right))
    resps = ctx.driver.batch([{'op': 'diff', 'left': l, 'right': r} for l, r in uniq.values()])
    return {k: model_out(x) for k, x in zip(uniq, resps)}


def small_pair(rng):
    """a short random pair of any input shape (line arrays, texts, chunked arrays, mixed)"""
    pool = rng.choice(LINE_POOLS[:5])
    left, right = edit_pair(rng, pool, rng.choice([2, 4, 8]))
    if rng.random() < 0.3:
        right = right[:-1] + [rng.choice(pool)] if right else [rng.choice(pool)]          # make the last lines differ more often
    shape = rng.randint(0, 3)
    if shape == 0:
        return left, right
    if shape == 1:
        return as_text(rng, left or ['']), as_text(rng, right or [''])
    if shape == 2:
        return as_chunks(rng, left), as_chunks(rng, right)
    return as_text(rng, left or ['']), as_chunks(rng, right)


def stream_globals(ctx, runner):
    names, free, literal_only = library_names()
    everything = [n for n in names if n not in free]
    st = ctx.stream('diff-globals', 'HOST GLOBALS that collide with names used inside the library: the %d names the working tree\'s diff.bare uses '
                    '(taken from its parsed model: variables read, locals / parameters / generated loop variables of its functions, identifier-like '
                    'string literals; plus the spellings False/True/None/undefined; minus the names the library owns at top level and the library '
                    'functions it calls - a host that rebinds those replaces the library, outside the property), one at a time and all at once, '
                    'bound to each of %d values (truthy and falsy, every BareScript type, host callables - one that raises -, subclasses of '
                    'str/int/list/dict), put there by the host before the run, by an earlier script sharing the globals (CLI multi-script mode; a '
                    'few cases through the real `bare -c ... -c ...` in a process of its own), by the host after the library was loaded, or by the '
                    'calling script; every combination on probes taking every way through the function (same / different last and first lines, an '
                    'empty side, equal inputs, texts, chunks) and random pairs: (a) one set of globals per name reused for all values and probes (the host rebinding its names between calls), (b) isolated runs. '
                    'Reconstruction oracle on every result; the model (it has no globals: host-only configuration) is compared wherever the '
                    'program theorem applies, i.e. for every name the library assigns itself (not for the names it only reads, e.g. `False`); '
                    'non-trivial = the line lists differ' % (len(names), len(VALUES)))
    rng = ctx.rng('diff-globals')
    vnames = list(VALUES)
    groups = [[n] for n in names] + [everything, list(names)]
    # ---- plan
    seq_work, iso_work, cli_work = [], [], []
    for gi, group in enumerate(groups):
        calls = []
        for vi, vname in enumerate(vnames):
            if ctx.quick and len(group) == 1 and group[0] in literal_only and (gi + vi) % 3:
                continue                    # quick tier: a name that only occurs as a string literal takes every third value
            probes = GLOBAL_PROBES
            if ctx.quick and len(group) == 1 and vname in FALSY_VALUES:        # quick tier: a falsy value (what an unset name reads as, too) on every other probe
                probes = GLOBAL_PROBES[(gi + vi) % 2::2]
            calls += [(vname, l, r) for l, r in probes + [small_pair(rng) for _ in range(ctx.scale(0, 6))]]
            scripted = VALUES[vname][1] is not None
            whens = [w for w in WHENS if scripted or w not in SCRIPTED_WHENS]
            if ctx.quick and len(group) == 1:
                # single names: one moment per (name, value), rotating; the all-at-once groups take every moment
                whens = [whens[(gi + vi) % len(whens)]]
                picks = [GLOBAL_PROBES[(gi * 5 + vi * 3) % len(GLOBAL_PROBES)] if (gi + vi) % 2 else small_pair(rng)]
            elif ctx.quick:
                picks = [GLOBAL_PROBES[(vi * 5 + k * 3) % len(GLOBAL_PROBES)] for k in range(4)] + [small_pair(rng)]
            else:
                picks = GLOBAL_PROBES + [small_pair(rng) for _ in range(2)]
            for when in whens:
                for left, right in picks:
                    iso_work.append((group, vname, when, left, right))
        seq_work.append((group, calls))
    scripted_values = [v for v in vnames if VALUES[v][1] is not None]
    for k in range(ctx.scale(6, 200)):
        group = groups[-2] if k % 2 == 0 else rng.choice(groups)
        left, right = GLOBAL_PROBES[k % len(GLOBAL_PROBES)] if k % 3 else small_pair(rng)
        cli_work.append((group, scripted_values[k % len(scripted_values)], left, right))
    models = models_for(ctx, [(l, r) for _, calls in seq_work for _, l, r in calls] + [(l, r) for _, _, _, l, r in iso_work] +
                        [(l, r) for _, _, l, r in cli_work])

    def model_of(group, left, right):
        return None if any(n in free for n in group) else models.get(_pair_key(left, right))

    def label(group):
        return group[0] if len(group) == 1 else 'ALL' if group is groups[-1] else 'ALL-ASSIGNED'

    def record(group, vname, when, left, right, impl):
        if impl is SKIPPED:
            st.case([label(group), vname, when, left, right], nontrivial=False, tags=['skipped'])
        else:
            st.case([label(group), vname, when, left, right], nontrivial=ref_lines(left) != ref_lines(right),
                    tags=['when=' + when, 'value=' + vname, 'names=%s' % ('1' if len(group) == 1 else 'all'), blocks_tag(impl)])

    # ---- (a) one set of globals per name (group) for all values and probes
    for group, calls in seq_work:
        results = runner.polluted_sequence(calls, group)
        for idx, ((vname, left, right), impl) in enumerate(zip(calls, results)):
            record(group, vname, 'reused', left, right, impl)
            if impl is SKIPPED:
                continue
            model = model_of(group, left, right)
            if model is not None:
                ctx.compare('diff-globals', {'left': left, 'right': right, 'mode': 'globals-sequence', 'names': group, 'value': vname}, impl, model)
            bad = oracle(left, right, impl)
            if bad is not None:
                # report the smallest history that still fails: the case alone if it does, else the (last 60) calls so far
                for when in ('after-include', 'host'):
                    alone = HostRunner().polluted(left, right, group, vname, when)       # (a runner with an overrun count of its own)
                    if alone is not SKIPPED and oracle(left, right, alone) is not None:
                        report(ctx, 'diff-globals', {'left': left, 'right': right, 'mode': 'globals', 'names': group, 'value': vname,
                                                     'when': when}, left, right, alone, None)
                        break
                else:
                    ctx.witness(bad[0], {'left': left, 'right': right, 'mode': 'globals-sequence', 'names': group, 'value': vname,
                                         'calls': [list(c) for c in calls[max(0, idx - 59):idx + 1]]}, bad[1], bad[2])
    # ---- (b) isolated runs, every moment
    for group, vname, when, left, right in iso_work:
        impl = runner.polluted(left, right, group, vname, when)
        record(group, vname, when, left, right, impl)
        report(ctx, 'diff-globals', {'left': left, 'right': right, 'mode': 'globals', 'names': group, 'value': vname, 'when': when},
               left, right, impl, model_of(group, left, right))
    # ---- (c) the real command line
    for group, vname, left, right in cli_work:
        # the CLI has no statement limit: only cases whose in-process twin stayed within its budget
        twin = runner.polluted(left, right, group, vname, 'prior-script')
        if twin is SKIPPED or (isinstance(twin, dict) and 'Exceeded maximum script statements' in twin.get('error', '')):
            record(group, vname, 'cli', left, right, SKIPPED)
            continue
        impl = runner.cli(left, right, group, vname)
        record(group, vname, 'cli', left, right, impl)
        report(ctx, 'diff-globals', {'left': left, 'right': right, 'mode': 'globals', 'names': group, 'value': vname, 'when': 'cli'},
               left, right, impl, model_of(group, left, right))
    st.exhaustive = False



# ---- fault-then-continue histories ----------------------------------------------------------------------------------------------

BAD_ARGS = {
    'number': lambda: [5, 'a'], 'null': lambda: [None, None], 'object': lambda: [{'type': 'Add'}, 'a'], 'numbers': lambda: [[1, 2], ['a']],
    'mixed': lambda: [['a', None, 3], ['a']], 'missing': lambda: [['a', 'b']], 'none': lambda: [], 'boolean': lambda: [True, 'a\nb'],
    'nested': lambda: [[['a']], ['a']], 'function': lambda: [_host_raiser, 'a'],
}
BROKEN_SCRIPTS = (
    'hostD = diffLines(hostInL, hostInR)\nhostNoSuchFunction(hostD)',                       # runtime error after a call
    "hostD = diffLines(hostInL, hostInR)\narrayPush(hostD, 'junk')\narrayPush(objectGet(arrayGet(hostD, 0), 'lines'), 'junk')",   # result modified
    'function hostLoop():\n    while true:\n        hostD = diffLines(hostInL, hostInR)\n    endwhile\nendfunction\nhostLoop()',     # budget runs out in a caller
    "include 'hostMissing.bare'",                                                           # an include that fails
    'hostD = diffLines(hostInR, hostInL)\nreturn arrayGet(hostD, 99)',
)
CALL_VIAS = ('script', 'eval', 'eval-nobuiltins', 'eval-locals', 'direct', 'function-arg')


def history_steps(rng):
    """A history over ONE options object and ONE globals object (what a host that keeps its interpreter configuration around does):
    the library is loaded, then good calls interleaved with faults - calls with arguments that are no texts / line arrays, calls and
    caller scripts cut off by the statement limit, scripts that fail after a call or modify a result, failing includes, a fetcher that
    fails once, the library included again - and every good call is checked.  Faults INSIDE the library's own top-level code are not
    generated (see the final report: an include cut off by the statement limit leaves its sentinel set)."""
    steps = []
    if rng.random() < 0.25:
        steps.append({'op': 'call', 'via': 'script', 'left': ['a'], 'right': ['b'], 'expect': 'fault'})        # before the library is loaded
    if rng.random() < 0.25:
        steps.append({'op': 'include', 'fetch': rng.choice(['raises', 'null', 'garbage'])})                    # the fetcher fails once
    steps.append({'op': 'include'})
    for _ in range(rng.randint(3, 8)):
        k = rng.randint(0, 9)
        if k <= 3:
            left, right = small_pair(rng)
            steps.append({'op': 'call', 'via': rng.choice(CALL_VIAS), 'left': left, 'right': right})
        elif k == 4:
            steps.append({'op': 'bad-call', 'args': rng.choice(sorted(BAD_ARGS)), 'via': rng.choice(['script', 'direct'])})
        elif k == 5:
            left, right = small_pair(rng)
            steps.append({'op': 'call', 'via': 'script', 'left': left, 'right': right, 'limit': rng.choice([1, 2, 3, 5, 8, 13, 21, 34, 55])})
        elif k == 6:
            left, right = small_pair(rng)
            steps.append({'op': 'script', 'which': rng.randrange(len(BROKEN_SCRIPTS)), 'left': left, 'right': right})
        elif k == 7:
            steps.append({'op': 'include'})
        elif k == 8:
            steps.append({'op': 'junk-options', 'key': rng.choice(['statementCount', 'debug', 'logFn', 'urlFn'])})
        else:
            left, right = small_pair(rng)
            steps.append({'op': 'call', 'via': 'script', 'left': left, 'right': left if rng.random() < 0.5 else right, 'alias': True})
    left, right = small_pair(rng)
    steps.append({'op': 'call', 'via': rng.choice(CALL_VIAS), 'left': left, 'right': right})
    return steps


def run_history(runner, steps):
    """-> one entry per step: the canonical result of a checked call (limit-free `call` steps after the library is loaded), else None"""
    rt, parse = runner.runtime, runner.script
    glob = {}
    options = runner._options(glob, 100000)  # pylint: disable=protected-access
    fetch_ok = options['fetchFn']
    out = []
    for step in steps:
        res = None
        op = step['op']
        try:
            if op == 'include':
                how = step.get('fetch')
                if how == 'raises':
                    options['fetchFn'] = _host_raiser
                elif how == 'null':
                    options['fetchFn'] = lambda request: None
                elif how == 'garbage':
                    options['fetchFn'] = lambda request: 'function broken(:\n'
                options['maxStatements'] = 100000
                try:
                    rt.execute_script(parse(SCRIPT_INCLUDE), options)
                finally:
                    options['fetchFn'] = fetch_ok
            elif op == 'call':
                left, right = step['left'], step['right']
                glob[IN_L] = clone(left)
                glob[IN_R] = glob[IN_L] if step.get('alias') and left == right else clone(right)
                budget = statement_budget(left, right)
                options['maxStatements'] = step.get('limit', budget)
                via = step['via']
                if via == 'script':
                    got = rt.execute_script(parse(SCRIPT_CALL_G), options)
                elif via == 'function-arg':         # diffLines handed to a library function (systemPartial) and called through what it returns
                    got = rt.execute_script(parse('hostBound = systemPartial(diffLines, %s)\nreturn hostBound(%s)' % (IN_L, IN_R)), options)
                else:
                    # no execute_script: the statement counter of the previous run goes on counting
                    count = options.get('statementCount')
                    if not isinstance(count, (int, float)) or isinstance(count, bool):
                        count = options['statementCount'] = 0
                    options['maxStatements'] = count + budget
                    if via == 'direct':
                        got = glob['diffLines']([glob[IN_L], glob[IN_R]], options)
                    elif via == 'eval-locals':
                        got = rt.evaluate_expression(runner.parser.parse_expression('diffLines(a, b)'), options, {'a': glob[IN_L], 'b': glob[IN_R]})
                    else:
                        got = rt.evaluate_expression(runner.parser.parse_expression(EXPR_CALL_G), options, None, via == 'eval')
                if 'limit' not in step:
                    res = canon(got)
            elif op == 'bad-call':
                args = BAD_ARGS[step['args']]()
                options['maxStatements'] = 2000
                if step['via'] == 'direct':
                    options['statementCount'] = 0
                    glob['diffLines'](args, options)
                else:
                    glob['hostBad'] = args
                    rt.execute_script(parse('return diffLines(%s)' % ', '.join('arrayGet(hostBad, %d)' % i for i in range(len(args)))), options)
            elif op == 'script':
                glob[IN_L], glob[IN_R] = clone(step['left']), clone(step['right'])
                options['maxStatements'] = 3 * statement_budget(step['left'], step['right'])
                rt.execute_script(parse(BROKEN_SCRIPTS[step['which']]), options)
            elif op == 'junk-options':
                options[step['key']] = {'statementCount': 10 ** 12, 'debug': True, 'logFn': [].append, 'urlFn': _host_raiser}[step['key']]
        except Exception as exc:  # pylint: disable=broad-except
            if op == 'call' and 'limit' not in step:
                res = {'error': type(exc).__name__ + ': ' + str(exc)[:120]}
        out.append(res)
    return out


def history_checked(steps):
    """indexes of the steps whose result the property speaks about: good calls made after the library was loaded"""
    loaded = False
    idx = []
    for i, step in enumerate(steps):
        if step['op'] == 'include' and 'fetch' not in step:
            loaded = True
        elif step['op'] == 'call' and loaded and 'limit' not in step and step.get('expect') != 'fault':
            idx.append(i)
    return idx


def stream_history(ctx, runner):
    st = ctx.stream('diff-history', 'FAULT-THEN-CONTINUE histories on ONE re-used options object and ONE globals object: the library loaded (also '
                    'after a fetcher that raised / returned null / returned text that does not parse, and loaded again later), then good calls '
                    'interleaved with calls whose arguments are no texts / line arrays (numbers, null, objects, arrays of non-strings, missing '
                    'arguments, a host function), calls and caller scripts cut off by the statement limit, scripts that fail after a call or '
                    'modify the result of one, failing includes, junk left in the options (a huge statementCount, debug with a logFn, a urlFn that raises); '
                    'good calls are made by a script, by evaluate_expression (builtins on / off, inputs as globals or as locals), by calling '
                    'the function value directly as a host does, as a callback of a library function, and with the same array object on both '
                    'sides; every good call: model + reconstruction oracle (a limited call that happens to finish is not checked: its limit is '
                    'the fault). Faults inside the library\'s own top-level code are not generated. Non-trivial = the history holds a fault before the call')
    rng = ctx.rng('diff-history')
    plans = [history_steps(rng) for _ in range(ctx.scale(200, 3000))]
    models = models_for(ctx, [(s['left'], s['right']) for steps in plans for s in steps if s['op'] == 'call'])
    for steps in plans:
        results = run_history(runner, steps)
        fault_seen = False
        checked = set(history_checked(steps))
        for i, (step, impl) in enumerate(zip(steps, results)):
            if i in checked:
                left, right = step['left'], step['right']
                inp = {'left': left, 'right': right, 'mode': 'history', 'steps': steps[:i + 1]}
                st.case(steps[:i + 1], nontrivial=fault_seen, tags=['via=' + step['via'], 'after-fault' if fault_seen else 'no-fault-yet', blocks_tag(impl)])
                report(ctx, 'diff-history', inp, left, right, impl, models.get(_pair_key(left, right)))
            elif step['op'] != 'include' or 'fetch' in step:
                fault_seen = True
    st.exhaustive = False



# ---- run histories: whole runs (include + call) one after the other, options / globals objects re-used, copied or new ----------

# The fault-then-continue histories above keep ONE options and ONE globals object.  A host that runs the same script several times
# owns two objects per run - the execution options and the globals - and for each of them it may pass the object of an earlier run
# again, a shallow copy of it (dict(options) shares every mutable value stored IN it) or a new one; every run includes <diff.bare>
# itself and calls diffLines.  What one run leaves behind in either object (include guards, caches of fetched / executed includes,
# counters) must not take the library away from a later run: "diffLines (include <diff.bare>) reconstructs both inputs" speaks about
# every one of these runs.
RUN_OPTIONS = ('same', 'fresh', 'copy')
RUN_GLOBALS = ('same', 'fresh', 'copy', 'cleared', 'stripped')
RUN_CORE = tuple((o, g) for o in ('same', 'fresh') for g in ('same', 'fresh', 'copy'))
RUN_ALL = tuple((o, g) for o in RUN_OPTIONS for g in RUN_GLOBALS)
LIB_PREFIXES = ('diff', 'unittest')                 # what `stripped` removes from a globals object: every name with the prefix of one of the
                                                    # include scripts the runs load (guards, schemas, regexes, functions; unittest.bare's as well:
                                                    # its guard left behind would keep a later <unittest.bare> from including diff.bare - the host's doing)
HOST_RUN_FN = 'function hostRun(a, b):\n    include <diff.bare>\n    return diffLines(a, b)\nendfunction\nreturn hostRun(%s, %s)' % (IN_L, IN_R)
RUN_FORMS = {                                       # form of a good run -> the scripts executed one after the other with the run's options
    'full': (SCRIPT_FULL_G,),
    'split': (SCRIPT_INCLUDE, SCRIPT_CALL_G),
    'twice': ('include <diff.bare>\ninclude <diff.bare>\n' + SCRIPT_CALL_G,),
    'again-after-call': ('include <diff.bare>\nhostFirst = %s\ninclude <diff.bare>\n%s' % (EXPR_CALL_G, SCRIPT_CALL_G),),
    'unittest': ('include <unittest.bare>\n' + SCRIPT_CALL_G,),                     # unittest.bare includes 'diff.bare' itself
    'unittest-then': ('include <unittest.bare>\ninclude <diff.bare>\n' + SCRIPT_CALL_G,),
    'in-function': (HOST_RUN_FN,),
}
# a failing (or odd) run in between: name -> (script, does the include statement complete before the fault?)
RUN_FAULTS = {
    'error-after-call': (SCRIPT_INCLUDE + '\nhostD = %s\nhostNoSuchFunction(hostD)' % EXPR_CALL_G, True),
    'bad-args': (SCRIPT_INCLUDE + '\nreturn diffLines(5, null)', True),
    'limit-in-caller': (SCRIPT_INCLUDE + '\nfunction hostLoop():\n    while true:\n        hostD = %s\n    endwhile\nendfunction\nhostLoop()' % EXPR_CALL_G, True),
    'missing-include': (SCRIPT_INCLUDE + "\ninclude 'hostMissing.bare'", True),
    'error-before-include': ('hostNoSuchFunction()\n' + SCRIPT_FULL_G, False),
    'fetch-raises': (SCRIPT_FULL_G, False),
    'fetch-null': (SCRIPT_FULL_G, False),
    'fetch-garbage': (SCRIPT_FULL_G, False),
    'limit-in-include': (SCRIPT_FULL_G, False),     # cut off by step['limit'] < the statements the include takes
}
FAILING_FETCH = {'fetch-raises': _host_raiser, 'fetch-null': lambda request: None, 'fetch-garbage': lambda request: 'function broken(:\n'}


def include_statements(runner):
    """the value of the statement counter after `include <diff.bare>` alone in new globals (6 on the pinned tree)"""
    options = runner._options({}, 100000)  # pylint: disable=protected-access
    try:
        runner.runtime.execute_script(runner.script(SCRIPT_INCLUDE), options)
    except Exception:  # pylint: disable=broad-except
        return 6
    count = options.get('statementCount')
    return count if isinstance(count, int) and not isinstance(count, bool) and 2 <= count <= 1000 else 6


def run_step(rng, i, opt, glo, k=None, form=None, pair=None):
    """a good run as step i: objects taken from step k (default: the one before)"""
    k = i - 1 if k is None else k
    left, right = pair if pair is not None else small_pair(rng)
    if i == 0:
        opt = glo = 'fresh'
    return {'op': 'run', 'options': [opt] if opt == 'fresh' else [opt, k], 'globals': [glo] if glo == 'fresh' else [glo, k],
            'form': form or 'full', 'left': left, 'right': right}


def fault_step(rng, i, opt, glo, fault, limits, k=None):
    step = run_step(rng, i, opt, glo, k, pair=small_pair(rng))
    step.update({'op': 'fault', 'fault': fault})
    del step['form']
    if fault == 'limit-in-include':
        step['limit'] = rng.choice(limits)
    return step


def run_plans(ctx, rng, limits):
    """-> [(family, steps)].  Exhaustive families (objects always taken from the run before): `pairs` / `triples` = every transition
    of RUN_ALL between 2 / 3 runs, `quads` = every transition of RUN_CORE between 4 runs, `faulted` = run, failing run, run with every
    RUN_CORE transition on both sides of every fault, `fault-first` = failing run, run, run likewise.  `random`: 2-4 good runs, objects taken from ANY earlier step, every form, a
    failing run in a gap with probability 1/2 (also two in a row, also before the first good run)."""
    plans = []
    forms = sorted(RUN_FORMS)
    for n, trans, family in ((2, RUN_ALL, 'pairs'), (3, RUN_ALL, 'triples'), (4, RUN_CORE, 'quads')):
        for combo in itertools.product(trans, repeat=n - 1):
            plans.append((family, [run_step(rng, 0, 'fresh', 'fresh')] + [run_step(rng, i + 1, o, g) for i, (o, g) in enumerate(combo)]))
    for fault in sorted(RUN_FAULTS):
        for (o1, g1), (o2, g2) in itertools.product(RUN_CORE, repeat=2):
            plans.append(('faulted', [run_step(rng, 0, 'fresh', 'fresh'), fault_step(rng, 1, o1, g1, fault, limits), run_step(rng, 2, o2, g2)]))
        for (o1, g1), (o2, g2) in itertools.product(RUN_CORE, repeat=2):
            plans.append(('fault-first', [fault_step(rng, 0, 'fresh', 'fresh', fault, limits), run_step(rng, 1, o1, g1), run_step(rng, 2, o2, g2)]))
    for _ in range(ctx.scale(250, 6000)):
        steps = []
        goods = rng.randint(2, 4)
        done = 0
        while done < goods:
            i = len(steps)
            o, g = rng.choice(RUN_ALL) if rng.random() < 0.5 else rng.choice(RUN_CORE)
            k = rng.randrange(i) if i else None
            if rng.random() < (0.15 if i == 0 or steps[-1]['op'] == 'fault' else 0.5):
                steps.append(fault_step(rng, i, o, g, rng.choice(sorted(RUN_FAULTS)), limits, k))
            else:
                steps.append(run_step(rng, i, o, g, k, form=rng.choice(forms) if rng.random() < 0.6 else 'full'))
                done += 1
        plans.append(('random', steps))
    return plans


def run_runs(runner, steps):
    """-> one entry per step: the canonical result of a JUDGED good run, else None.  Not judged: a good run in globals in which an
    include was cut off by the statement limit before it had completed once (known finding F37: the guard of diff.bare is set before
    its definitions are made), or in a copy of such globals; clearing / stripping the globals or taking new ones ends that."""
    rt = runner.runtime
    used = []                           # per step: (options object, globals object)
    state = {}                          # id(globals object) -> 'loaded' (an include completed in it) | 'cut' (F37 history); objects kept alive in `used`
    out = []
    for step in steps:
        how = step['options']
        if how[0] == 'fresh':
            options = runner._options(None, 100000)  # pylint: disable=protected-access
        elif how[0] == 'same':
            options = used[how[1]][0]
        else:
            options = dict(used[how[1]][0])
        how = step['globals']
        if how[0] == 'fresh':
            glob = {}
        elif how[0] == 'copy':
            glob = dict(used[how[1]][1])
            state[id(glob)] = state.get(id(used[how[1]][1]))
        else:
            glob = used[how[1]][1]
            if how[0] == 'cleared':
                glob.clear()
                state[id(glob)] = None
            elif how[0] == 'stripped':
                for name in [n for n in glob if n.startswith(LIB_PREFIXES)]:
                    del glob[name]
                state[id(glob)] = None
        options['globals'] = glob
        used.append((options, glob))
        left, right = step['left'], step['right']
        glob[IN_L], glob[IN_R] = clone(left), clone(right)
        res = None
        if step['op'] == 'run':
            options['maxStatements'] = statement_budget(left, right) + 2000
            try:
                for text in RUN_FORMS[step['form']]:
                    got = rt.execute_script(runner.script(text), options)
                res = canon(got)
            except Exception as exc:  # pylint: disable=broad-except
                res = {'error': type(exc).__name__ + ': ' + str(exc)[:120]}
            if state.get(id(glob)) == 'cut':
                res = None
            else:
                state[id(glob)] = 'loaded'
        else:
            fault = step['fault']
            text, completes = RUN_FAULTS[fault]
            options['maxStatements'] = step.get('limit', 400 if fault == 'limit-in-caller' else 5000)
            fetch_ok = options.get('fetchFn')
            if fault in FAILING_FETCH:
                options['fetchFn'] = FAILING_FETCH[fault]                       # a fetcher that fails for this run only
            raised = False
            try:
                rt.execute_script(runner.script(text), options)
            except Exception:  # pylint: disable=broad-except
                raised = True
            finally:
                options['fetchFn'] = fetch_ok
            if state.get(id(glob)) is None:
                if completes or (fault == 'limit-in-include' and not raised):
                    state[id(glob)] = 'loaded'
                elif fault == 'limit-in-include':
                    state[id(glob)] = 'cut'
        out.append(res)
    return out


def stream_runs(ctx, runner):
    total = include_statements(runner)
    limits = sorted(set(range(1, total)))[:40]
    st = ctx.stream('diff-runs', 'RUN HISTORIES: 2-4 consecutive execute_script runs that EACH include <diff.bare> and call diffLines; for every run '
                    'after the first the host passes as OPTIONS the dict object of an earlier run again / a new dict / a shallow copy of an earlier '
                    'one (dict(options): shares every mutable value stored in it) and as GLOBALS the object of an earlier run again / a new dict / a '
                    'shallow copy / the same object cleared / the same object with every diff* / unittest* name removed. Exhaustive families '
                    '(objects taken from the run before): all %d transitions between 2 and 3 runs, the %d {same, fresh} x {same, fresh, copy} '
                    'transitions between 4 runs, and run / failing run / run as well as failing run / run / run with those %d transitions between the steps for each of %d kinds of '
                    'failing run (runtime error after a call, non-text arguments, statement limit reached in the caller, a second include that '
                    'fails, an error before the include, a fetcher that raises / returns null / returns text that does not parse - for that run '
                    'only -, the include itself cut off by the statement limit at each of %s); random histories take the objects from ANY earlier '
                    'step, put failing runs in any gap and vary the form of the run (include + call in one script or in two, the include twice, '
                    'again after a call, <unittest.bare> which includes diff.bare itself, then <diff.bare>, the include inside the calling function). '
                    'EVERY good run: model + reconstruction oracle; not judged: runs in globals (or a copy of globals) in which the include was cut '
                    'off by the statement limit before it had completed once (known finding F37) - new / cleared / stripped globals after such a '
                    'run are judged. Host objects and run histories are outside the Lean model: implementation-side oracle, the model compared '
                    'on the lines of each run. Non-trivial = the run has an earlier run before it'
                    % (len(RUN_ALL), len(RUN_CORE), len(RUN_CORE), len(RUN_FAULTS), limits))
    rng = ctx.rng('diff-runs')
    plans = run_plans(ctx, rng, limits)
    models = models_for(ctx, [(s['left'], s['right']) for _, steps in plans for s in steps if s['op'] == 'run'])
    for family, steps in plans:
        results = run_runs(runner, steps)
        fault = None
        for i, (step, impl) in enumerate(zip(steps, results)):
            if step['op'] == 'fault':
                fault = step['fault']
                continue
            if impl is None:
                continue
            left, right = step['left'], step['right']
            inp = {'left': left, 'right': right, 'mode': 'runs', 'steps': steps[:i + 1]}
            st.case(steps[:i + 1], nontrivial=i > 0,
                    tags=['family=' + family, 'options=' + step['options'][0], 'globals=' + step['globals'][0], 'form=' + step['form'],
                          'run#%d' % (1 + sum(1 for s in steps[:i] if s['op'] == 'run')), 'after-fault=' + (fault or 'none'), blocks_tag(impl)])
            report(ctx, 'diff-runs', inp, left, right, impl, models.get(_pair_key(left, right)))
    st.exhaustive = False



# ---- the caller has used the library on the very same values before (and edits what it got) ---------------------------------

# "diffLines reconstructs both inputs" holds whatever the caller did BEFORE in the same run / process: in particular having passed the
# very same texts / arrays to the library functions diff.bare itself is made of, and having edited the values those returned in place
# (a result handed out twice - a cache - would be edited under the library's feet), having edited the blocks of an earlier result,
# or having edited the arrays it passes again.

LF_EXPR = 'stringFromCharCode(10)'
# script level: how a caller splits ONE string into lines / copies ONE array, and how it then edits the array it got, in place
PRIOR_SPLITS = {
    'same-regex': "regexSplit(regexNew(stringFromCharCode(13) + '?' + stringFromCharCode(10)), s)",      # an equal, separately made regex
    'library-regex': 'regexSplit(diffRegexLineSplit, s)',                                                # the library's own regex object
    'lf-regex': 'regexSplit(regexNew(%s), s)' % LF_EXPR,
    'stringSplit': 'stringSplit(s, %s)' % LF_EXPR,
    'json': 'jsonParse(jsonStringify(regexSplit(diffRegexLineSplit, s)))',
}
PRIOR_COPIES = {
    'arrayCopy': 'arrayCopy(a)', 'arraySlice': 'arraySlice(a, 0)', 'arrayExtend': 'arrayExtend(arrayNew(), a)',
    'slice-ends': 'arraySlice(a, 0, arrayLength(a))', 'object': "objectGet(objectCopy(objectNew('lines', arrayCopy(a))), 'lines')",
}
PRIOR_EDITS = {
    'pop': ['arrayPop(x)'], 'shift': ['arrayShift(x)'], 'push': ["arrayPush(x, 'junk')"], 'sort': ['arraySort(x)'],
    'set': ["arraySet(x, 0, 'junk')"], 'delete': ['arrayDelete(x, 0)'], 'extend': ["arrayExtend(x, arrayNew('junk', ''))"],
    'pop-if-empty-last': ["if arrayLength(x) && arrayGet(x, arrayLength(x) - 1) == '':", '    arrayPop(x)', 'endif'],
    'clear': ['while arrayLength(x):', '    arrayPop(x)', 'endwhile'],
}


def prior_use_script(split, copy, edit):
    """A caller that (1) loads the library, (2) splits every text it is about to compare / copies every array, editing what it got in
    place, (3) calls diffLines, (4) edits the blocks of the result, (5) calls diffLines again with the same inputs.
    -> [copy of the first result taken before it was edited, second result]"""
    lines = [
        'include <diff.bare>',
        'function hostEdit(x):',
    ] + _ind(PRIOR_EDITS[edit]) + [
        'endfunction',
        'function hostUse(v):',
        "    if systemType(v) == 'array':",
        '        a = v',
        '        hostEdit(%s)' % PRIOR_COPIES[copy],
        '        for s in v:',
        '            hostEdit(%s)' % PRIOR_SPLITS[split],
        '        endfor',
        '        s = arrayJoin(v, %s)' % LF_EXPR,
        '        hostEdit(%s)' % PRIOR_SPLITS[split],
        '    else:',
        '        s = v',
        '        hostEdit(%s)' % PRIOR_SPLITS[split],
        '    endif',
        'endfunction',
        'hostUse(%s)' % IN_L,
        'hostUse(%s)' % IN_R,
        'hostFirst = diffLines(%s, %s)' % (IN_L, IN_R),
        'hostFirstCopy = jsonParse(jsonStringify(hostFirst))',
        'for hostBlock in hostFirst:',
        "    hostEdit(objectGet(hostBlock, 'lines'))",
        "    objectSet(hostBlock, 'type', 'Add')",
        'endfor',
        'hostEdit(hostFirst)',
        'hostUse(%s)' % IN_R,
        'hostUse(%s)' % IN_L,
        'return arrayNew(hostFirstCopy, diffLines(%s, %s))' % (IN_L, IN_R),
    ]
    return '\n'.join(lines)


PRIOR_DENY = ('system',)                    # functions with effects outside the values they are given (fetch, log, globals)
HOST_EDITS = ('pop', 'shift', 'push', 'set', 'sort', 'clear', 'extend')


def _host_edit(value, how, keep, depth=0):
    """edit a container the library returned, in place (and the containers inside it); `keep`: ids of the objects not to touch"""
    if id(value) in keep or depth > 2:
        return
    if isinstance(value, dict):
        for item in list(value.values())[:8]:
            _host_edit(item, how, keep, depth + 1)
        value['lines'] = ['junk']
        value['type'] = 'Junk'
    elif isinstance(value, list):
        for item in list(value)[:8]:
            if isinstance(item, (list, dict)):
                _host_edit(item, how, keep, depth + 1)
        try:
            if how == 'pop' and value:
                value.pop()
            elif how == 'shift' and value:
                del value[0]
            elif how == 'push':
                value.append('junk')
            elif how == 'set' and value:
                value[0] = 'junk'
            elif how == 'sort':
                value.sort(key=str)
            elif how == 'clear':
                del value[:]
            elif how == 'extend':
                value.extend(['junk', ''])
        except Exception:  # pylint: disable=broad-except
            pass


def _arg_shapes(value, other, regexes):
    """argument lists a caller may hand a library function together with the input `value`: -> [(shape name, args)]"""
    parts = [value] if isinstance(value, str) else list(value[:3])
    out = [('v', [value]), ('v,w', [value, other]), ('v,lf', [value, '\n']), ('v,0', [value, 0]), ('v,0,1', [value, 0, 1]), ('v,1', [value, 1]),
           ('key,v', ['lines', value]), ('v,v', [value, value])]
    for k, part in enumerate(parts):
        out += [('p%d' % k, [part]), ('p%d,lf' % k, [part, '\n']), ('p%d,0' % k, [part, 0])]
        for j, rex in enumerate(regexes):
            out.append(('re%d,p%d' % (j, k), [rex, part]))
    return out


class PriorUse:
    """the host-level sweep: EVERY library function of the working tree (but the system* ones) is handed the very objects that are then
    given to diffLines, in every argument shape of _arg_shapes; whatever containers come back are edited in place"""

    def __init__(self, runner):
        self.runner = runner
        self.lib = dict(fw.impl()['library'].SCRIPT_FUNCTIONS)
        self.names = [n for n in sorted(self.lib) if not n.startswith(PRIOR_DENY)]
        self.productive = None

    def regexes(self, glob, options):
        out = [glob.get('diffRegexLineSplit'), re.compile('\r?\n'), re.compile('\n'), re.compile('\r?\n', re.MULTILINE)]
        try:
            out.append(self.lib['regexNew'](['\r?\n'], options))
        except Exception:  # pylint: disable=broad-except
            pass
        return [x for x in out if x is not None]

    def sweep(self, first, second, glob, options, only=None):
        """-> the containers the library returned, [(function name, shape name, value)]"""
        got = []
        regexes = self.regexes(glob, options)
        for value, other, side in ((first, second, 'l'), (second, first, 'r')):
            for shape, args in _arg_shapes(value, other, regexes):
                cls = _shape_class(shape)
                for name in self.names:
                    if only is not None and (name, cls) not in only:
                        continue
                    try:
                        res = self.lib[name](list(args), options)
                    except Exception:  # pylint: disable=broad-except
                        continue
                    if isinstance(res, (list, dict)):
                        got.append((name, shape, res))
        return got

    def learn(self):
        """which (function, shape class) pairs return a container at all - found once on two sample inputs, so that the sweep of every
        case only makes the calls that can matter"""
        if self.productive is None:
            self.productive = set()
            for first, second in ((['a\nb', 'c', ''], 'a\r\nc\n'), ('a\nb\n', ['a', 'b\nc']), (['a'], ['b', 'a'])):
                glob = {}
                options = self.runner._options(glob, 100000)  # pylint: disable=protected-access
                try:
                    self.runner.runtime.execute_script(self.runner.script(SCRIPT_INCLUDE), options)
                except Exception:  # pylint: disable=broad-except
                    pass
                for name, shape, _ in self.sweep(clone(first), clone(second), glob, options):
                    self.productive.add((name, _shape_class(shape)))
        return self.productive

    def run(self, left, right, how):
        """-> [(left lines' owner at the time of the call, right ..., canonical result)] for three calls: after the sweep + edits, after
        the first result was edited, after the input arrays themselves were edited (texts: replaced by longer texts)"""
        runner = self.runner
        glob = {}
        options = runner._options(glob, 100000)  # pylint: disable=protected-access
        out = []
        try:
            runner.runtime.execute_script(runner.script(SCRIPT_INCLUDE), options)
        except Exception as exc:  # pylint: disable=broad-except
            return [(left, right, runner._error(exc))]  # pylint: disable=protected-access
        first, second = clone(left), clone(right)
        keep = {id(first), id(second)}

        def call():
            glob[IN_L], glob[IN_R] = first, second
            want = (clone(first), clone(second))
            options['maxStatements'] = statement_budget(want[0], want[1])
            try:
                raw = runner.runtime.execute_script(runner.script(SCRIPT_CALL_G), options)
                out.append(want + (canon(raw),))
                return raw
            except Exception as exc:  # pylint: disable=broad-except
                out.append(want + (runner._error(exc),))  # pylint: disable=protected-access
                return None

        def use():
            for _, _, value in self.sweep(first, second, glob, options, self.learn()):
                _host_edit(value, how, keep)
            # functions that work in place (arraySort, arrayPush, arrayExtend ...) changed the inputs themselves: put their lines back
            if isinstance(first, list):
                first[:] = left
            if isinstance(second, list):
                second[:] = right

        use()
        raw = call()
        if raw is not None:
            _host_edit(raw, how, keep)
        use()
        call()
        # the caller edits the arrays it passes again (same objects, new lines) / passes longer texts
        if isinstance(first, list):
            first.append('zz')
            if len(first) > 1:
                first[0] = 'changed'
            left = list(first)
        else:
            first = left = first + '\nzz'
        if isinstance(second, list):
            if second:
                second.pop()
            second.insert(0, 'zz')
            right = list(second)
        else:
            second = right = 'zz\r\n' + second
        keep.update((id(first), id(second)))
        use()
        call()
        return out


def _shape_class(shape):
    """the shape name without part / regex numbers (p0,lf -> p,lf ; re2,p1 -> re,p)"""
    return re.sub(r'\d+', '', shape) if shape[:1] in 'pr' else shape


PRIOR_PROBES = [
    ('alpha\nbeta\ngamma\n', 'alpha\nbeta2\ngamma\n'), ('a\nb\n', 'a\nb\n'), (['a\nb\n', 'c'], 'a\nb\n\nc'), ('a\r\nb', ['a', 'b']),
    (['x', 'y', 'z'], ['x', 'z']), ('one', 'one'), (['p\n', 'q\n'], ['p\n', 'q\n']), ('', 'a\n'), (['b', 'a', 'c'], ['a', 'b', 'c']),
]


def stream_prior_use(ctx, runner):
    st = ctx.stream('diff-prior-use', 'THE CALLER HAS USED THE LIBRARY ON THE SAME VALUES BEFORE, in the same run and process: (a) caller scripts = '
                    '%d ways of splitting every text / array part into lines (an equal regex made separately, the library\'s own regex object, LF '
                    'only, stringSplit, through JSON) x %d ways of copying an array x %d in-place edits of what came back (pop, shift, push, sort, '
                    'set, delete, extend, pop a trailing empty line, clear), then diffLines, then the same edits on the blocks of the result and '
                    'the uses again, then diffLines again; (b) a host-level sweep: every library function of the working tree except system* '
                    '(%d functions) is handed the very objects given to diffLines afterwards, in every argument shape (alone, with the other '
                    'input, with LF, with indexes, as an object member, part by part, with %d line-splitting regexes), every container that '
                    'comes back is edited in place (7 edits, containers inside too), the inputs get their lines back, then diffLines; the '
                    'result is edited, the sweep repeated, diffLines again; then the input ARRAYS are edited (same objects, other lines; texts '
                    'replaced) and diffLines once more. Every call: reconstruction oracle against the lines the inputs have at that moment, '
                    'the model, and the result a fresh interpreter process gives for the same inputs. Non-trivial = the line lists differ'
                    % (len(PRIOR_SPLITS), len(PRIOR_COPIES), len(PRIOR_EDITS), len([n for n in fw.impl()['library'].SCRIPT_FUNCTIONS
                                                                                       if not n.startswith(PRIOR_DENY)]), 5))
    rng = ctx.rng('diff-prior-use')
    checked = []            # (input for the witness, left, right, result)
    # ---- (a) caller scripts
    combos = [(sp, cp, ed) for sp in PRIOR_SPLITS for ed in PRIOR_EDITS for cp in PRIOR_COPIES]
    if ctx.quick:           # every split x every edit; the copies rotate
        combos = [(sp, list(PRIOR_COPIES)[(i + j) % len(PRIOR_COPIES)], ed) for i, sp in enumerate(PRIOR_SPLITS) for j, ed in enumerate(PRIOR_EDITS)]
    for k, (split, copy, edit) in enumerate(combos):
        text = prior_use_script(split, copy, edit)
        picks = [PRIOR_PROBES[(k + j * 4) % len(PRIOR_PROBES)] for j in range(ctx.scale(2, len(PRIOR_PROBES)))] + \
                [small_pair(rng) for _ in range(ctx.scale(1, 10))]
        for left, right in picks:
            res = run_prior_script(runner, text, left, right)
            for which, impl in enumerate(res):
                inp = {'left': left, 'right': right, 'mode': 'prior-use', 'kind': 'script', 'script': text, 'call': which}
                checked.append((inp, left, right, impl, ['kind=script', 'split=' + split, 'copy=' + copy, 'edit=' + edit]))
    # ---- (b) host-level sweep
    sweeper = PriorUse(runner)
    for k in range(ctx.scale(60, 1200)):
        left, right = PRIOR_PROBES[k % len(PRIOR_PROBES)] if k % 3 == 0 else small_pair(rng)
        how = HOST_EDITS[k % len(HOST_EDITS)]
        for which, (now_l, now_r, impl) in enumerate(sweeper.run(left, right, how)):
            inp = {'left': now_l, 'right': now_r, 'mode': 'prior-use', 'kind': 'sweep', 'first': [left, right], 'edit': how, 'call': which}
            checked.append((inp, now_l, now_r, impl, ['kind=sweep', 'edit=' + how, 'call=%d' % which]))
    ctx.notes.append('diff-prior-use: %d (function, argument shape) pairs of the library return a container' % len(sweeper.learn()))
    models = models_for(ctx, [(l, r) for _, l, r, _, _ in checked])
    uniq = {}
    for _, left, right, _, _ in checked:
        uniq.setdefault(_pair_key(left, right), (left, right))
    fresh = dict(zip(uniq, fresh_run(list(uniq.values()))))
    for inp, left, right, impl, tags in checked:
        if impl is SKIPPED:
            st.case([inp.get('script', inp.get('first')), inp.get('edit'), inp['call'], left, right], nontrivial=False, tags=['skipped'])
            continue
        st.case([inp.get('script', inp.get('first')), inp.get('edit'), inp['call'], left, right], nontrivial=ref_lines(left) != ref_lines(right),
                tags=tags + [blocks_tag(impl)])
        report(ctx, 'diff-prior-use', inp, left, right, impl, models.get(_pair_key(left, right)))
        ctx.compare('diff-prior-use', dict(inp, mode='prior-use-vs-fresh-process'), impl, fresh[_pair_key(left, right)])
    st.exhaustive = False


def run_prior_script(runner, text, left, right):
    """-> [first result, second result] of a prior_use_script caller (canonical)"""
    if runner.overruns >= MAX_OVERRUNS:
        return [SKIPPED, SKIPPED]
    n = len(ref_lines(left)) + len(ref_lines(right))
    try:
        res = runner.runtime.execute_script(runner.script(text), runner._options(  # pylint: disable=protected-access
            {IN_L: clone(left), IN_R: clone(right)}, 3 * statement_budget(left, right) + 2000 + 400 * n))
        if not isinstance(res, list) or len(res) != 2:
            return [{'error': 'caller returned ' + type(res).__name__}] * 2
        return [canon(res[0]), canon(res[1])]
    except Exception as exc:  # pylint: disable=broad-except
        return [runner._error(exc)] * 2  # pylint: disable=protected-access


# ---- host values as inputs and host ways of running ------------------------------------------------------------------------------

INPUT_KINDS = ('plain', 'strsub', 'enum', 'listsub', 'listsub-strsub', 'lines-strsub', 'alias')
OPTION_KINDS = ('plain', 'dictsub-globals', 'dictsub-options', 'debug-log', 'float-limit', 'intsub-limit', 'no-system-prefix')


def host_value(kind, value):
    """the input `value` (a str or a list of str) as the host object `kind`"""
    if kind in ('plain', 'alias'):
        return clone(value)
    if isinstance(value, str):
        if kind in ('strsub', 'listsub-strsub', 'lines-strsub'):
            return HostStr(value)
        if kind == 'enum':
            return enum.Enum('HostText', {'TEXT': value}, type=str).TEXT
        return value
    if kind == 'listsub':
        return HostList(value)
    if kind == 'listsub-strsub':
        return HostList(HostStr(x) for x in value)
    if kind in ('lines-strsub', 'strsub'):
        return [HostStr(x) for x in value]
    if kind == 'enum':
        return [enum.Enum('HostLine', {'LINE': x}, type=str).LINE for x in value]
    return list(value)


def run_boundary(runner, left, right, in_kind, opt_kind, via):
    """one isolated run with host-made input objects and host-made options"""
    if runner.overruns >= MAX_OVERRUNS:
        return SKIPPED
    budget = statement_budget(left, right) + 100
    hl = host_value(in_kind, left)
    hr = hl if in_kind == 'alias' and left == right else host_value(in_kind, right)
    glob = HostDict() if opt_kind == 'dictsub-globals' else {}
    options = runner._options(glob, budget)  # pylint: disable=protected-access
    log = []
    if opt_kind == 'dictsub-options':
        options = HostDict(options)
    elif opt_kind == 'debug-log':
        options['debug'] = True
        options['logFn'] = log.append
    elif opt_kind == 'float-limit':
        options['maxStatements'] = float(budget)
    elif opt_kind == 'intsub-limit':
        options['maxStatements'] = HostInt(budget)
    elif opt_kind == 'no-system-prefix':        # the host serves `diff.bare` itself, the system prefix is not configured
        del options['systemPrefix']
        bare = runner.bare
        options['fetchFn'] = lambda request: bare._fetch_include({'url': bare._FETCH_INCLUDE_PREFIX + os.path.basename(request['url'])})  # pylint: disable=protected-access
    try:
        rt = runner.runtime
        if via == 'script':
            glob[IN_L], glob[IN_R] = hl, hr
            return canon(rt.execute_script(runner.script(SCRIPT_FULL_G), options))
        rt.execute_script(runner.script(SCRIPT_INCLUDE), options)
        options['statementCount'] = 0
        if via == 'direct':
            return canon(glob['diffLines']([hl, hr], options))
        if via == 'direct-extra':               # more arguments than parameters
            return canon(glob['diffLines']([hl, hr, 'extra', None], options))
        if via == 'eval-locals':
            return canon(rt.evaluate_expression(runner.parser.parse_expression('diffLines(a, b)'), options, {'a': hl, 'b': hr}))
        glob[IN_L], glob[IN_R] = hl, hr
        return canon(rt.evaluate_expression(runner.parser.parse_expression(EXPR_CALL_G), options, None, via == 'eval'))
    except Exception as exc:  # pylint: disable=broad-except
        return runner._error(exc)  # pylint: disable=protected-access


BOUNDARY_VIAS = ('script', 'direct', 'direct-extra', 'eval', 'eval-nobuiltins', 'eval-locals')

_FRESH_RUN_SRC = r"""
import json, sys
sys.path.insert(0, sys.argv[1])
from bare_script import parser, runtime, bare
script = parser.parse_script(sys.argv[2])
out = []
for left, right, limit in json.load(sys.stdin):
    try:
        res = runtime.execute_script(script, {'fetchFn': bare._fetch_include, 'systemPrefix': bare._FETCH_INCLUDE_PREFIX,
                                              'globals': {sys.argv[3]: left, sys.argv[4]: right}, 'maxStatements': limit})
        out.append(['ok', res])
    except Exception as exc:
        out.append(['err', type(exc).__name__ + ': ' + str(exc)[:120]])
json.dump(out, sys.stdout, default=str)
"""


def fresh_run(pairs):
    """the pairs run IN ORDER by a fresh interpreter process (no state of this process: no module caches, no earlier runs)"""
    work = [[l, r, statement_budget(l, r) + 100] for l, r in pairs]
    try:
        res = subprocess.run([sys.executable, '-c', _FRESH_RUN_SRC, fw.REPO_SRC, SCRIPT_FULL_G, IN_L, IN_R], input=json.dumps(work),
                             capture_output=True, text=True, timeout=300, check=False)
    except subprocess.TimeoutExpired:
        return [{'error': 'fresh process did not finish in 300 s'}] * len(pairs)
    if res.returncode != 0:
        return [{'error': 'fresh process failed: ' + res.stderr[-200:]}] * len(pairs)
    return [canon(x[1]) if x[0] == 'ok' else {'error': x[1]} for x in json.loads(res.stdout)]


def stream_boundary(ctx, runner):
    st = ctx.stream('diff-boundary', 'HOST VALUES AND HOST WAYS OF RUNNING: the inputs as host objects (a str subclass, str-enum members, a list '
                    'subclass, lists of str-subclass lines, one array object passed on both sides) x host options (globals / options that are '
                    'dict subclasses, debug with a collecting logFn, maxStatements as a float / an int subclass, the shipped file served by the '
                    'host\'s own fetcher without a system prefix) x the way the function is reached (a script, the function value called directly '
                    'as a host or a library callback does - also with surplus arguments -, evaluate_expression with builtins on / off and with '
                    'the inputs as locals); and a batch run in a fresh interpreter process (must satisfy the oracle and equal the in-process '
                    'result). The model has no host objects: it gets the same lines as plain strings. Non-trivial = the line lists differ')
    rng = ctx.rng('diff-boundary')
    work = []
    fixed = GLOBAL_PROBES + HOST_PROBES
    combos = [(i, o, v) for i in INPUT_KINDS for o in OPTION_KINDS for v in BOUNDARY_VIAS]
    for k, (in_kind, opt_kind, via) in enumerate(combos):
        picks = [fixed[(k * 7 + j * 3) % len(fixed)] for j in range(ctx.scale(1, 6))] + [small_pair(rng) for _ in range(ctx.scale(1, 30))]
        for left, right in picks:
            if in_kind == 'alias' and rng.random() < 0.7:
                right = clone(left)
            work.append((in_kind, opt_kind, via, left, right))
    fresh_pairs = fixed + [small_pair(rng) for _ in range(ctx.scale(80, 3000))]
    models = models_for(ctx, [(l, r) for _, _, _, l, r in work] + fresh_pairs)
    for in_kind, opt_kind, via, left, right in work:
        impl = run_boundary(runner, left, right, in_kind, opt_kind, via)
        if impl is SKIPPED:
            st.case([in_kind, opt_kind, via, left, right], nontrivial=False, tags=['skipped'])
            continue
        st.case([in_kind, opt_kind, via, left, right], nontrivial=ref_lines(left) != ref_lines(right),
                tags=['input=' + in_kind, 'options=' + opt_kind, 'via=' + via, blocks_tag(impl)])
        report(ctx, 'diff-boundary', {'left': left, 'right': right, 'mode': 'boundary', 'input': in_kind, 'options': opt_kind, 'via': via},
               left, right, impl, models.get(_pair_key(left, right)))
    results = fresh_run(fresh_pairs)
    for (left, right), impl in zip(fresh_pairs, results):
        st.case(['fresh-process', left, right], nontrivial=ref_lines(left) != ref_lines(right), tags=['via=fresh-process', blocks_tag(impl)])
        inp = {'left': left, 'right': right, 'mode': 'fresh-process'}
        report(ctx, 'diff-boundary', inp, left, right, impl, models.get(_pair_key(left, right)))
        here = runner.polluted(left, right, [], 'null', 'host')
        if here is not SKIPPED:
            ctx.compare('diff-boundary', dict(inp, mode='fresh-process-vs-this-process'), impl, here)
    st.exhaustive = False


# ---------------------------------------------------------------------------------------------------------------------
# the shipped include directory: EVERY file in it (not only *.bare), through the CLI's system include loader
# ---------------------------------------------------------------------------------------------------------------------
# "Every shipped include script" = every file of the package's include directory in the working tree, whatever its extension: the
# nine *.bare scripts AND the legacy alias scripts *.mds (args.mds, unittest.mds, ...: sentinel check, a deprecation log line, then
# `include '<name>.bare'` relative to itself - unittest.mds -> unittest.bare -> diff.bare is a shipped way to reach diffLines).

INCLUDE_SKIP = ('__init__.py', '__pycache__')
INCLUDE_LIMIT = 20000          # statements for one `include <name>` (measured: <= 70 for the largest shipped script with its nested includes)
INCLUDE_STATEMENT_RE = re.compile(r"^[ \t]*include[ \t]+(?:<([^>\r\n]+)>|'((?:[^'\\\r\n]|\\.)*)')", re.M)
INCLUDE_PROBES = [(['a', 'b', 'c'], ['a', 'c', 'd']), ('a\r\nb\r\nc', 'a\nb\n'), ('same\ntext', 'same\ntext'), ([], ['a']),
                  (['b', 'a', 'a'], ['a', 'b', 'a'])]
INCLUDE_OK = {'parses': True, 'validates': True, 'lint': [], 'cli_static': 0, 'served': 'identical', 'run': 'ok', 'run_path': 'ok',
              'diff': 'ok | n/a', 'diff_path': 'ok | n/a', 'cli_run': 0, 'cli_file': 0, 'cli_diff': 'ok | n/a'}
CLI_MANY = '''\
import contextlib, io, json, sys
sys.path.insert(0, sys.argv[1])
from bare_script.bare import main
out = []
for argv in json.load(sys.stdin):
    buf = io.StringIO()
    try:
        with contextlib.redirect_stdout(buf):
            main(argv)
        code = 'no exit'
    except SystemExit as exc:
        code = exc.code
    except BaseException as exc:
        code = type(exc).__name__ + ': ' + str(exc)[:200]
    out.append([code, buf.getvalue()[-4000:]])
sys.__stdout__.write(json.dumps(out))
'''


def include_dir():
    return os.path.join(os.path.dirname(os.path.abspath(fw.impl()['bare'].__file__)), 'include')


def shipped_files():
    """-> {name: bytes} for every file shipped in the include directory of the working tree (all extensions; not the package
    marker __init__.py, not byte-code caches)."""
    inc_dir = include_dir()
    out = {}
    for name in sorted(os.listdir(inc_dir)):
        path = os.path.join(inc_dir, name)
        if name in INCLUDE_SKIP or name.endswith(('.pyc', '.pyo')) or not os.path.isfile(path):
            continue
        with open(path, 'rb') as fh:
            out[name] = fh.read()
    return out


def include_reach(files):
    """-> {name: set of shipped files reached by its include statements, transitively, itself included}; read off the TEXT of the
    files with a regular expression (independent of parse_script): <x> and 'x' both name a file of the same directory here."""
    direct = {}
    for name, raw in files.items():
        text = raw.decode('utf-8', 'replace')
        direct[name] = {os.path.basename(a or b) for a, b in INCLUDE_STATEMENT_RE.findall(text)} & set(files)
    reach = {}
    for name in files:
        seen, todo = {name}, [name]
        while todo:
            for nxt in direct[todo.pop()]:
                if nxt not in seen:
                    seen.add(nxt)
                    todo.append(nxt)
        reach[name] = seen
    return reach


def cli_fetch_options(glob, limit, logs=None, path_form=False):
    """the options the CLI passes to execute_script (bare.py main: fetchFn, systemPrefix, logFn; urlFn as for a script file standing
    in the include directory when `path_form`) + the statement limit the CLI does not have"""
    m = fw.impl()
    bare = m['bare']
    opts = {'fetchFn': bare._fetch_include, 'systemPrefix': bare._FETCH_INCLUDE_PREFIX,  # pylint: disable=protected-access
            'globals': glob, 'maxStatements': limit, 'logFn': (logs if logs is not None else []).append}
    if path_form:
        opts['urlFn'] = functools.partial(m['options'].url_file_relative, os.path.join(include_dir(), 'main.bare'))
    return opts


def include_line(name, form):
    return 'include <%s>' % name if form == 'system' else "include '%s'" % name


def run_route(lines, needs_diff):
    """Execute the include statements `lines` as one script through the CLI fetch options. -> (run, diff): run = 'ok' or the error;
    diff = 'n/a' (no file of the route reaches diff.bare), 'ok' (diffLines is defined afterwards and reconstructs every probe pair,
    called in the globals the route left behind), or what failed."""
    m = fw.impl()
    glob = {}
    try:
        script = m['parser'].parse_script('\n'.join(lines))
        m['runtime'].execute_script(script, cli_fetch_options(glob, INCLUDE_LIMIT, path_form=any("'" in ln for ln in lines)))
    except Exception as exc:  # pylint: disable=broad-except
        return f'{type(exc).__name__}: {exc}'[:300], 'not run'
    if not needs_diff:
        return 'ok', 'n/a'
    if not callable(glob.get('diffLines')):
        return 'ok', 'diffLines is not defined after the include (%s)' % type(glob.get('diffLines')).__name__
    call = m['parser'].parse_script(SCRIPT_CALL)
    for left, right in INCLUDE_PROBES:
        glob['l'], glob['r'] = clone(left), clone(right)
        try:
            res = canon(m['runtime'].execute_script(call, cli_fetch_options(glob, statement_budget(left, right))))
        except Exception as exc:  # pylint: disable=broad-except
            res = {'error': f'{type(exc).__name__}: {exc}'[:200]}
        bad = oracle(left, right, res)
        if bad is not None:
            return 'ok', {'oracle': bad[0], 'left': left, 'right': right, 'expected': bad[1], 'actual': bad[2]}
    return 'ok', 'ok'


def defined_after(name):
    """-> the names bound to functions in the globals that `include <name>` leaves behind (None: the include failed)"""
    m = fw.impl()
    glob = {}
    try:
        m['runtime'].execute_script(m['parser'].parse_script(include_line(name, 'system')), cli_fetch_options(glob, INCLUDE_LIMIT))
    except Exception:  # pylint: disable=broad-except
        return None
    return {k for k, v in glob.items() if callable(v)}


def route_bad(run, diff):
    return run != 'ok' or diff not in ('ok', 'n/a')


def cli_many(argvs):
    """the real command line for every argv list, in ONE process of its own with a timeout (the CLI has no statement limit)
    -> [[exit status, output tail]]"""
    if not argvs:
        return []
    try:
        res = subprocess.run([sys.executable, '-c', CLI_MANY, fw.REPO_SRC], input=json.dumps(argvs), capture_output=True, text=True,
                             timeout=120, check=False)
        out = json.loads(res.stdout)
        if len(out) == len(argvs):
            return out
        return [['bare CLI runs: %d answers for %d command lines' % (len(out), len(argvs)), '']] * len(argvs)
    except subprocess.TimeoutExpired:
        return [['bare CLI did not finish in 120 s', '']] * len(argvs)
    except ValueError:
        return [['bare CLI runs: exit %s: %s' % (res.returncode, (res.stdout + res.stderr)[-200:]), '']] * len(argvs)


def _lit(x):
    return "jsonParse('" + json.dumps(x, ensure_ascii=True).replace('\\', '\\\\').replace("'", "\\'") + "')"


def include_facts(only=None):
    """What the implementation says about each shipped include file (every file of the include directory, or the names in `only`).
    -> [{name, sha256, parses, statements, validates, lint, cli_static, served, run, diff, run_path, diff_path, cli_run, cli_file, cli_diff}]"""
    m = fw.impl()
    bare = m['bare']
    inc_dir = include_dir()
    files = shipped_files()
    reach = include_reach(files)
    rows = []
    for name, raw in files.items():
        if only is not None and name not in only:
            continue
        row = {'name': name, 'sha256': hashlib.sha256(raw).hexdigest(), 'parses': False, 'statements': 0, 'validates': False, 'lint': [],
               'reaches_diff': 'diff.bare' in reach[name]}
        try:
            script = m['parser'].parse_script(raw.decode('utf-8'))
            row['parses'], row['statements'] = True, len(script['statements'])
            try:
                m['model'].validate_script(script)
                row['validates'] = True
            except Exception as exc:  # pylint: disable=broad-except
                row['validate_error'] = f'{type(exc).__name__}: {exc}'[:300]
            row['lint'] = list(m['model'].lint_script(script))
        except Exception as exc:  # pylint: disable=broad-except
            row['parse_error'] = f'{type(exc).__name__}: {exc}'[:300]
        # the CLI's own static analysis (`bare -s <file>`): exit status 0 and "... OK"
        buf = io.StringIO()
        try:
            with contextlib.redirect_stdout(buf):
                bare.main(['-s', os.path.join(inc_dir, name)])
            row['cli_static'] = 'no exit'
        except SystemExit as exc:
            row['cli_static'] = exc.code
        except Exception as exc:  # pylint: disable=broad-except
            row['cli_static'] = type(exc).__name__
        row['cli_output'] = buf.getvalue().strip()[-300:]
        # (a) the CLI's system include loader serves the file under the system prefix, byte for byte
        try:
            got = bare._fetch_include({'url': bare._FETCH_INCLUDE_PREFIX + name})  # pylint: disable=protected-access
            if not isinstance(got, str):
                row['served'] = 'the loader returned ' + type(got).__name__
            elif got.encode('utf-8', 'surrogatepass') != raw:
                row['served'] = 'differs from the shipped file: sha256 ' + hashlib.sha256(got.encode('utf-8', 'surrogatepass')).hexdigest()
            else:
                row['served'] = 'identical'
        except Exception as exc:  # pylint: disable=broad-except
            row['served'] = f'{type(exc).__name__}: {exc}'[:300]
        # (c) `include <name>` (system loader) and `include 'name'` (the file by its path) execute; diffLines works where diff.bare is reached
        row['run'], row['diff'] = run_route([include_line(name, 'system')], row['reaches_diff'])
        row['run_path'], row['diff_path'] = run_route([include_line(name, 'path')], row['reaches_diff'])
        rows.append(row)
    # the real command line (one process for all): `bare -c 'include <name>'`, `bare <file>`, and for the routes to diff.bare
    # `bare -c 'include <name>' -c "systemLog('RESULT ' + jsonStringify(diffLines(L, R)))"`; only what ran within the statement limit
    left, right = INCLUDE_PROBES[0]
    jobs = []
    for row in rows:
        row['cli_run'] = row['cli_file'] = 'not run'
        row['cli_diff'] = 'n/a' if not row['reaches_diff'] else 'not run'
        if row['run'] == 'ok':
            jobs.append((row, 'cli_run', ['-c', include_line(row['name'], 'system')]))
            if row['reaches_diff'] and row['diff'] == 'ok':
                jobs.append((row, 'cli_diff', ['-c', include_line(row['name'], 'system'),
                                               '-c', "systemLog('RESULT ' + jsonStringify(diffLines(%s, %s)))" % (_lit(left), _lit(right))]))
        if row['run_path'] == 'ok':
            jobs.append((row, 'cli_file', [os.path.join(inc_dir, row['name'])]))
    for (row, key, _), (code, output) in zip(jobs, cli_many([j[2] for j in jobs])):
        if key != 'cli_diff':
            row[key] = code if code == 0 else 'exit %s: %s' % (code, output[-200:])
            continue
        res = {'error': 'bare CLI exit %s: %s' % (code, output[-200:])}
        for ln in output.splitlines():
            if ln.startswith('RESULT '):
                try:
                    res = canon(json.loads(ln[len('RESULT '):]))
                except ValueError:
                    pass
        bad = oracle(left, right, res)
        row[key] = 'ok' if bad is None and code == 0 else {'exit': code, 'oracle': bad and bad[0], 'left': left, 'right': right, 'actual': res}
    return rows


INCLUDE_KEYS = ('name', 'sha256', 'parses', 'statements', 'validates', 'lint')


def include_bad(row):
    return not (row['parses'] and row['validates'] and row['lint'] == [] and row['cli_static'] == 0 and row['served'] == 'identical'
                and not route_bad(row['run'], row['diff']) and not route_bad(row['run_path'], row['diff_path'])
                and row['cli_run'] == 0 and row['cli_file'] == 0 and row['cli_diff'] in ('ok', 'n/a'))


def include_sequences(ctx, names):
    """-> [(forms, names)]: two include statements in ONE script (the second finds the globals - sentinels - of the first): every
    ordered pair of shipped files incl. the same file twice as system includes; system/path mixes: a rotating sample (quick), all (thorough)"""
    pairs = [(a, b) for a in names for b in names]
    out = [(('system', 'system'), p) for p in pairs]
    mixed = [(f, p) for f in (('path', 'system'), ('system', 'path'), ('path', 'path')) for p in pairs]
    if ctx.quick:
        mixed = ctx.rng('includes').sample(mixed, min(len(mixed), 60))
    return out + mixed


def stream_includes(ctx):
    st = ctx.stream('includes', 'EVERY file shipped in the include directory of the working tree (directory listing: *.bare AND the legacy alias scripts '
                                '*.mds and whatever else stands there, except __init__.py / __pycache__): parse_script succeeds, validate_script '
                                'accepts the model, lint_script returns [], `bare -s file` exits 0; (a) the CLI system include loader '
                                '(_fetch_include under _FETCH_INCLUDE_PREFIX) serves it byte-identical to the file; (c) `include <name>` and '
                                '`include \'name\'` execute without error through the CLI fetch options (statement limit set), `bare -c "include '
                                '<name>"` and `bare <file>` exit 0 (real command line, a process of its own), and where the file reaches diff.bare '
                                '(include graph read off the file texts: diff.bare, unittest.bare, unittest.mds) diffLines is then defined and '
                                'reconstructs %d probe pairs (in-process and through `bare -c ... -c ...`). SEQUENCES: two include statements in '
                                'one script, every ordered pair of shipped files (also the same file twice; alias then target, target then alias) as '
                                'system includes + system/path mixes: no error, diffLines works when either reaches diff.bare. Compared (implementation against '
                                'itself): the functions a reached file defines when included alone are all defined after `include <name>`. '
                                'Lean side: the table Gen/Includes (decided theorem) lists include/*.bare only - for those rows the table compiled '
                                'into the driver must be the table the implementation yields now; the *.mds rows, the loader, the execution and the '
                                'sequences are IMPLEMENTATION-SIDE oracles only (no Lean model of the loader / of package data). Non-trivial: the '
                                'file has statements; a sequence: one of its files itself includes another shipped file' % len(INCLUDE_PROBES))
    rows = include_facts()
    table = None
    if ctx.driver is not None:
        table = {r['name']: r for r in ctx.driver.batch([{'op': 'includes'}])[0].get('includes', [])}
    for row in rows:
        ext = os.path.splitext(row['name'])[1] or 'none'
        st.case(row['name'], nontrivial=row['statements'] > 0,
                tags=['statements<=%d' % next(b for b in (10, 20, 50, 100, 10 ** 9) if row['statements'] <= b), 'ext=' + ext,
                      'reaches-diff' if row['reaches_diff'] else 'no-diff'])
        if table is not None and row['name'].endswith('.bare'):
            ctx.compare('includes', row['name'], {k: row[k] for k in INCLUDE_KEYS}, table.get(row['name']))
        if include_bad(row):
            ctx.witness('include-parses-validates-lintclean', {'include': row['name']}, INCLUDE_OK, row)
    if table is not None:
        ctx.compare('includes', 'file list', [r['name'] for r in rows if r['name'].endswith('.bare')], sorted(table))
    if not any(r['name'] == 'diff.bare' for r in rows):
        ctx.witness('include-parses-validates-lintclean', {'include': 'diff.bare'}, 'diff.bare is shipped', [r['name'] for r in rows])
    # sequences of two includes; a file that fails on its own is reported above, not again in every pair
    good = {r['name'] for r in rows if not include_bad(r)}
    reach = include_reach(shipped_files())
    # nested includes really load what they name: every function a reached file defines when included alone is defined after the
    # route as well (implementation against itself; a comparison, not an oracle of the property - only diffLines is named there)
    defined = {name: defined_after(name) for name in sorted(good)}
    for name in sorted(good):
        for target in sorted(reach[name] & good - {name}):
            if defined[name] is not None and defined[target] is not None:
                ctx.compare('includes', {'include': name, 'reaches': target, 'what': 'functions of the reached file missing after the include'},
                            sorted(defined[target] - defined[name]), [])
    reported = 0
    for forms, names in include_sequences(ctx, sorted(good)):
        lines = [include_line(n, f) for n, f in zip(names, forms)]
        needs_diff = any('diff.bare' in reach[n] for n in names)
        run, diff = run_route(lines, needs_diff)
        st.case(lines, nontrivial=any(len(reach[n]) > 1 for n in names),
                tags=['sequence', 'forms=' + '+'.join(forms), 'reaches-diff' if needs_diff else 'no-diff', 'same-file' if names[0] == names[1] else
                      'alias+target' if reach[names[0]] & reach[names[1]] else 'unrelated'])
        if route_bad(run, diff) and reported < 5:
            reported += 1
            ctx.witness('include-sequence-runs', {'include_route': lines, 'reaches_diff': needs_diff}, {'run': 'ok', 'diff': 'ok | n/a'},
                        {'run': run, 'diff': diff})
    st.exhaustive = True


def streams(ctx):
    runner = Runner()
    stream_inputs(ctx, runner)
    stream_scale(ctx, runner)
    stream_twins(ctx, runner)
    stream_hosts(ctx, runner)
    # a runner each: a variant that overruns its statement budget under one kind of host configuration must not switch the others off
    stream_globals(ctx, HostRunner())
    stream_history(ctx, HostRunner())
    stream_runs(ctx, HostRunner())
    stream_boundary(ctx, HostRunner())
    stream_prior_use(ctx, HostRunner())
    stream_cli_path(ctx, runner, ctx.scale(3, 4))
    cpus = os.cpu_count() or 1
    workers = 1 if ctx.quick else int(os.environ.get('VERIF_C20_WORKERS', max(1, min(8, cpus // 2))))
    kmax = ctx.scale(4, int(os.environ.get('VERIF_C20_KMAX', 6 if workers >= 4 else 5)))
    t0 = time.time()
    total = run_exhaustive(ctx, kmax, workers)
    ctx.notes.append(f'diff: {total} pairs (length <= {kmax}) with {workers} worker process(es) in {time.time() - t0:.0f}s')
    stream_includes(ctx)


# ---------------------------------------------------------------------------------------------------------------------
# search / replay
# ---------------------------------------------------------------------------------------------------------------------

def search(ctx):
    """Something no longer checks and the streams saw no failing input: a larger oracle-only sweep on the implementation
    (longer lists, a 4-letter alphabet, more random pairs and texts), stopping at the first witness."""
    runner = Runner()
    budget = time.time() + ctx.scale(60, 300)

    def try_case(left, right, fn, mode):
        impl = fn(left, right)
        bad = None if impl is SKIPPED else oracle(left, right, impl)
        if bad is not None:
            ctx.witness(bad[0], {'left': left, 'right': right, 'mode': mode}, bad[1], bad[2])
            return True
        return False

    for row in include_facts():
        if include_bad(row):
            ctx.witness('include-parses-validates-lintclean', {'include': row['name']}, INCLUDE_OK, row)
            return
    def try_host(left, right, name, text):
        impl = runner.host(left, right, text)
        bad = None if impl is SKIPPED else oracle(left, right, impl)
        if bad is not None:
            ctx.witness(bad[0], {'left': left, 'right': right, 'mode': 'host', 'host': name, 'script': text}, bad[1], bad[2])
            return True
        return False

    for d in ctx.disagreements:
        if d and isinstance(d.get('case'), dict) and 'left' in d['case']:
            if 'script' in d['case'] and try_host(d['case']['left'], d['case']['right'], d['case'].get('host'), d['case']['script']):
                return
            for fn, mode in ((runner.fresh, 'fresh'), (runner.shared, 'shared'), (runner.embedded, 'embedded')):
                if try_case(d['case']['left'], d['case']['right'], fn, mode):
                    return
    for name, text in build_hosts():
        for left, right in HOST_PROBES + corpus_pairs():
            if try_host(left, right, name, text):
                return
    for _, _, left, right in itertools.chain(twin_sweep_cases(ctx), twin_random_cases(ctx, ctx.scale(3000, 20000))):
        if time.time() > budget:
            break
        if try_case(left, right, runner.shared, 'shared'):
            return
    for _, left, right in input_cases(ctx):
        if time.time() > budget:
            break
        if try_case(left, right, runner.fresh, 'fresh'):
            return
    for alphabet, kmax in (('abc', ctx.scale(5, 6)), ('abcd', ctx.scale(4, 5))):
        lists = all_lists(kmax, alphabet)
        for left in lists:
            if time.time() > budget:
                ctx.notes.append('search: time budget reached')
                return
            for right in lists:
                if try_case(left, right, runner.shared, 'shared'):
                    return
    rng = ctx.rng('search')
    while time.time() < budget:
        pool = rng.choice(LINE_POOLS)
        left, right = edit_pair(rng, pool, 60)
        if try_case(left, right, runner.shared, 'shared'):
            return


def replay_host(inp):
    """the witnesses of the diff-globals / diff-history / diff-boundary streams (whatever the oracle name: the input says how to run)"""
    runner = HostRunner()
    left, right, mode = inp['left'], inp['right'], inp['mode']
    if mode == 'globals':
        if inp['when'] == 'cli':
            impl = runner.cli(left, right, inp['names'], inp['value'])
        else:
            impl = runner.polluted(left, right, inp['names'], inp['value'], inp['when'])
    elif mode == 'globals-sequence':
        impl = runner.polluted_sequence([tuple(c) for c in inp['calls']], inp['names'])[-1]
    elif mode == 'history':
        impl = run_history(runner, inp['steps'])[-1]
    elif mode == 'runs':
        impl = run_runs(runner, inp['steps'])[-1]
    elif mode == 'prior-use':
        if inp['kind'] == 'script':
            impl = run_prior_script(runner, inp['script'], left, right)[inp['call']]
        else:
            res = PriorUse(runner).run(inp['first'][0], inp['first'][1], inp['edit'])
            if inp['call'] >= len(res):
                return True
            left, right, impl = res[inp['call']]
    elif mode == 'boundary':
        impl = run_boundary(runner, left, right, inp['input'], inp['options'], inp['via'])
    else:
        impl = fresh_run([(left, right)])[0]
    return impl is not SKIPPED and impl is not None and oracle(left, right, impl) is not None


def replay(witness):
    inp = witness['input']
    if 'include' in inp:
        rows = include_facts(only=[inp['include']])
        return not rows or include_bad(rows[0])
    if 'include_route' in inp:
        return route_bad(*run_route(inp['include_route'], inp['reaches_diff']))
    mode = inp.get('mode')
    if mode in ('globals', 'globals-sequence', 'history', 'runs', 'boundary', 'fresh-process', 'prior-use'):
        return replay_host(inp)
    runner = Runner()
    if inp.get('mode') == 'host':
        return oracle(inp['left'], inp['right'], runner.host(inp['left'], inp['right'], inp['script'])) is not None
    fn = {'shared': runner.shared, 'embedded': runner.embedded}.get(inp.get('mode'), runner.fresh)
    return oracle(inp['left'], inp['right'], fn(inp['left'], inp['right'])) is not None


LEVEL_TEXT = ('PROGRAM-LEVEL THEOREM (C20Prog.diffLines_exact, include_binds, prog_left/right/blocks_nonempty/identical): for the statement list '
              'the real parse_script returns for the shipped include/diff.bare (regenerated into Gen/DiffBare on every run), run by the jump '
              'machine model of runtime.py (label cache, statement counter, call wrapper, _script_function) with the verified library model as its '
              'library: running the include binds diffLines and diffRegexLineSplit; then for ALL arguments (a string or an array of strings on '
              'either side, any number of lines, any heap, any caller state whose globals bind the library) the call diffLines(left, right) '
              'returns a fresh array of objects {type, lines} that decodes to exactly Diff.diffInputs left right - hence blocks with non-empty line '
              'lists whose Identical+Remove lines concatenate to the left lines and whose Identical+Add lines concatenate to the right lines, and '
              'only Identical blocks for inputs with equal lines. The while+continue behaviour of this code base (F7) is what the lowered jumps do. '
              'Model-level theorems (C20.*) for line lists of any length over any line type: the functional model of diffLines returns blocks with '
              'non-empty line lists that reconstruct both inputs; equal inputs give only Identical blocks and empty inputs give []; the fuelled main '
              'loop never runs out of fuel (explicit bound |L|+|R|+1, result independent of the fuel) and never passes arraySlice an index out of '
              'range; the same for string arguments (split on \\r?\\n) and arrays of multi-line parts. A decided theorem over the regenerated table '
              'Gen/Includes records that every shipped include script parses, validates and has no lint warning.')
LEVEL_NOTE = ('Proof level holds for the parsed program on the machine model. Assumed, not proved: re.split with \\r?\\n = Diff.splitLines (regexNew/regexSplit '
              'are outside the Lib model; hostDiff adds exactly these two functions), schemaParse = null, and the machine/library models themselves '
              '(tied to runtime.py / library.py by the correspondence streams of C01, C08, C09, C15). Independently of the theorem the real script is '
              'executed by the real interpreter with the CLI include fetcher and compared with the model exhaustively on all pairs of line lists of length '
              '<= 4 (quick) / <= 6 (thorough, <= 5 when fewer than 4 worker processes are available) over a 3-letter alphabet, plus random '
              'pairs up to 40 lines, LF/CRLF texts and chunked arrays, twin lines (different strings equal under a Unicode normalisation form, '
              'a case mapping, invisible affixes, a numeric reading or a length limit; words from all 17 planes) and 165 caller scripts '
              '(include form x place of the include statement x way of calling); the reconstruction oracle runs on every implementation output. '
              'Host side (no model of host objects / globals / histories in Lean: implementation-side oracle, the model compared on the same lines): '
              'diff-globals (host globals named like every name the working tree\'s diff.bare uses, every value type, set by the host / an earlier '
              'script / the CLI multi-script mode / the caller), diff-history (fault-then-continue histories on one re-used options + globals '
              'object), diff-runs (2-4 whole runs that each include the library and call it, the options and the globals of every run being the '
              'object of an earlier run, a copy of it or new - every combination, with and without a failing run in between), diff-boundary (str / list / dict / int subclasses and str-enum members as inputs and options, the function reached by a script, '
              'directly, through evaluate_expression; a fresh interpreter process) and diff-prior-use (the caller used every library function on the '
              'same values before and edited what it got, the results and the input arrays in place). '
              'If diff.bare changes so that its parsed model differs, BareProofs.C20Prog no longer compiles and these streams + the search are what '
              'produce the concrete failing input. The include facts are those reported by parse_script/validate_script/lint_script of the working '
              'tree (no Lean model of the linter); the Lean table covers include/*.bare, while the `includes` stream checks EVERY file of the '
              'shipped include directory (also the legacy *.mds alias scripts) on the implementation only: served byte-identical by the CLI '
              'system include loader, parses / validates / lint-clean, executes as `include <name>` (in-process with a statement limit and through '
              'the real command line), diffLines defined and reconstructing on every route that reaches diff.bare, and all ordered pairs of '
              'shipped files included one after the other in one script.')
