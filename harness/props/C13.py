"""C13 - numbers survive conversion to text and back; integers print without a fraction."""

import json
import math
import os
import re
import struct
import sys
import unicodedata
from fractions import Fraction

import fw

ID = 'C13'
LEVEL = 'proof'
LEAN_TARGETS = ['BareProofs.C13', 'BareProofs.C13Patterns']
DRIVER = 'drv_c13'
DRIVER_ROOT = 'Drv.C13'
GEN = ['Regex']
THEOREMS = [
    'C13.patterns_as_modelled',
    'C13.strip_preserves_value', 'C13.strip_integral_no_fraction', 'C13.strip_noop_on_exponent',
    'C13.strip_noop_without_trailing_dot_zeros', 'C13.strip_noop_nonfinite', 'C13.strip_is_literal',
    'C13.literal_never_raises', 'C13.parse_number_total', 'C13.parse_float_never_nonfinite', 'C13.parse_int_total',
    'C13.int_prints_digits_only', 'C13.int_text_roundtrip',
    'C13.strip_removes_trailing_dot_zeros', 'C13.numberParseFloat_strip_repr',
    'C13.roundtrip_under_assumptions', 'C13.literal_roundtrip_under_assumptions',
]
ASSUMPTIONS = [
    'A1 (not modelled, sampled): for a finite float x, repr(x) is in the grammar -?D+.D+ | -?D(.D+)?e[+-]DD+ (checked on every sampled x '
    'with the decidable IsRepr), float(repr(x)) == x, and an integral x with |x| < 1e16 has repr "<digits>.0"',
    'A2 (not modelled, sampled): float(text) is a function of the rational number the text denotes (its correct rounding; magnitudes >= '
    '2^1024 - 2^970 give inf); sampled by comparing float(text) with int/int true division of the model\'s exact [num, den]',
    'CPython re engine: stripDotZeros and the literal scanner re-implement r"\\.0*$" and _R_EXPR_NUMBER by hand; the pattern strings are '
    're-extracted (Gen/Regex) and compared by a decide-d theorem; behaviour tied by correspondence',
    'CPython float(str)/int(str, base) text grammars are re-implemented from Objects/floatobject.c, pystrtod.c, longobject.c (3.12); tied by '
    'the parsers stream. Unicode decimal digits / spaces ARE modelled: the model tables are compared with unicodedata / str.isspace at run time',
    'generator restriction: parser texts with an exponent beyond 2200 are not compared with the model (the driver computes exact rationals; the oracles still run); '
    'lone surrogates and a non-finite radix argument are not generated (the latter belongs to C05)',
    'int/str digit limit (F17): Python ints with more than 4300 digits are not stringified; int(text) beyond '
    'sys.get_int_max_str_digits() digits is modelled (-> null)',
]
TRUSTED = ['CPython float.__repr__ / float() / int() / str(int) and the re module (see assumptions)']

LEVEL_TEXT = ('Theorems for ALL strings of the repr grammar: the clean-up r"\\.0*$" keeps the denoted rational, turns "<digits>.0" into '
              '"<digits>", is the identity on exponent forms and on inf/nan, and (for non-negative text) leaves a text the source-literal '
              'scanner consumes entirely with the same value; the models of numberParseFloat / numberParseInt only answer for text that is a '
              'number as a whole and never a non-finite value; str(int) is digits only and parses back. The round trip through '
              'numberParseFloat and through source literals follows under the explicit hypotheses A1/A2 about CPython repr/float, which are '
              'sampled on >= 200k doubles, not proved (_partial by nature: the shortest-repr algorithm is not modelled).')
LEVEL_NOTE = ('Trusted: Lean kernel; extract.py; correspondence harness. Modelled not verified: CPython re, float(str), int(str, base) text '
              'grammars (hand re-implementation tied by correspondence). Assumed: shortest round-trip repr and correctly rounded float().')

RE_NUMBER_TEXT = re.compile(r'-?\d+(\.\d*[1-9])?(e[+-]\d\d+)?')      # what a stringified finite number may look like
RE_DIGITS = re.compile(r'-?[0-9]+')


# ---------------------------------------------------------------------------------------------------------------------
# reference definitions written from the Python documentation (independent of the Lean model)
# ---------------------------------------------------------------------------------------------------------------------

_DP = r'\d(?:_?\d)*'
# https://docs.python.org/3.12/library/functions.html#float  (floatvalue, without infinity / nan which must give null)
RE_DOC_FLOAT = re.compile(r'[+-]?(?:(?:%s)?\.%s|%s\.?)(?:[eE][+-]?%s)?' % (_DP, _DP, _DP, _DP))


RE_DOC_FLOAT_PARTS = re.compile(r'([+-]?)(\d*)\.?(\d*)(?:[eE]([+-]?\d+))?')


def ref_float(text):
    """The finite float the documentation says `text` denotes, or None if `text` is not a (finite) number."""
    body = text.strip()
    if not RE_DOC_FLOAT.fullmatch(body):
        return None
    sign, ip, fp, exp = RE_DOC_FLOAT_PARTS.fullmatch(body.replace('_', '')).groups()
    digits = (ip + fp).lstrip('0' + ''.join(chr(z) for z in UNI_ALL_ZEROS))
    e10 = int(exp or '0') - len(fp)
    if not digits or len(digits) + e10 < -400:
        val = 0.0                                  # zero, or far below the smallest subnormal
    elif len(digits) + e10 > 400:
        return None                                # overflows to inf: not a finite number
    else:
        try:
            val = float(Fraction(int(digits)) * Fraction(10) ** e10)
        except OverflowError:
            return None
    return -val if sign == '-' else val


UNI_ALL_ZEROS = [c for c in range(0x80, 0x110000) if unicodedata.decimal(chr(c), None) == 0]


def _digit_value(ch):
    dec = unicodedata.decimal(ch, None)
    if dec is not None:
        return dec
    if 'a' <= ch <= 'z':
        return ord(ch) - 87
    if 'A' <= ch <= 'Z':
        return ord(ch) - 55
    return None


def ref_int(text, radix):
    """int literal in base `radix` per https://docs.python.org/3.12/library/functions.html#int, or None."""
    body = text.strip()
    sign = 1
    if body[:1] in ('+', '-'):
        sign = -1 if body[0] == '-' else 1
        body = body[1:]
    prefix = {16: 'x', 8: 'o', 2: 'b'}.get(radix)
    if prefix and len(body) >= 2 and body[0] == '0' and body[1].lower() == prefix:
        body = body[2:]
        if body[:1] == '_':
            body = body[1:]
    if not body or body[0] == '_' or body[-1] == '_' or '__' in body:
        return None
    val = 0
    for ch in body:
        if ch == '_':
            continue
        d = _digit_value(ch)
        if d is None or d >= radix:
            return None
        val = val * radix + d
    return sign * val


# ---------------------------------------------------------------------------------------------------------------------
# the implementation, called through its public surfaces
# ---------------------------------------------------------------------------------------------------------------------

SCRIPT_ROUNDTRIP = '''\
s1 = '' + x
s2 = x + ''
s3 = stringNew(x)
s4 = arrayJoin(arrayNew(x), ',')
systemLog(x)
return arrayNew(s1, s2, s3, s4, numberParseFloat(s1))
'''

_PARSED = {}


def _script(name, text):
    key = (id(fw.impl()['parser']), name)
    if key not in _PARSED:
        _PARSED[key] = fw.impl()['parser'].parse_script(text)
    return _PARSED[key]


def run_script(name, text, globals_, log=None):
    m = fw.impl()
    opts = {'globals': dict(globals_), 'maxStatements': 1000}
    if log is not None:
        opts['logFn'] = log.append
    return m['runtime'].execute_script(_script(name, text), opts)


def call_lib(name, args):
    """A library call the way the runtime's call wrapper treats it (runtime.py:236-250)."""
    m = fw.impl()
    try:
        return m['library'].SCRIPT_FUNCTIONS[name](list(args), None)
    except m['value'].ValueArgsError as exc:
        return exc.return_value
    except Exception as exc:  # pylint: disable=broad-except
        return {'swallowed': type(exc).__name__}


def fhex(v):
    """Exact, sign-of-zero preserving canonical form of a result that should be a float."""
    if isinstance(v, bool) or not isinstance(v, (int, float)):
        return {'not-a-number': repr(v)[:80]}
    if isinstance(v, int):
        return {'int': hex(v)[:80]}
    return v.hex()


def safe(fn, *args):
    try:
        return fn(*args)
    except Exception as exc:  # pylint: disable=broad-except
        return {'error': type(exc).__name__, 'msg': str(exc)[:100]}


def check_double(x, with_script=True):
    """Property oracles for one finite float x on the implementation. -> (value_string text, [(oracle, expected, actual)])"""
    m = fw.impl()
    fails = []
    vs = safe(m['value'].value_string, x)
    if not isinstance(vs, str):
        return None, [('value_string-returns-text', 'str', vs)]
    # shape: canonical number text; integral values are digits only
    if not RE_NUMBER_TEXT.fullmatch(vs):
        fails.append(('number-text-shape', RE_NUMBER_TEXT.pattern, vs))
    if x.is_integer() and abs(x) < 1e16:
        want = ('-' if math.copysign(1.0, x) < 0 else '') + str(abs(int(x)))
        if vs != want:
            fails.append(('integral-prints-as-digits', want, vs))
    # back through numberParseFloat (library function)
    back = call_lib('numberParseFloat', [vs])
    if fhex(back) != x.hex():
        fails.append(('numberParseFloat(value_string(x))==x', x.hex(), fhex(back)))
    # back as a source literal
    if math.copysign(1.0, x) > 0:
        expr = safe(m['parser'].parse_expression, vs)
        got = {'number': fhex(expr['number'])} if isinstance(expr, dict) and set(expr) == {'number'} else expr
        if got != {'number': x.hex()}:
            fails.append(('parse_expression(value_string(x))=={number:x}', {'number': x.hex()}, got))
    # through scripts: every stringifying surface gives the same text, and the text parses back
    if with_script:
        log = []
        res = safe(run_script, 'roundtrip', SCRIPT_ROUNDTRIP, {'x': x}, log)
        want = [vs, vs, vs, vs, x.hex()]
        got = res[:4] + [fhex(res[4])] if isinstance(res, list) and len(res) == 5 else res
        if got != want:
            fails.append(('script: concat/stringNew/arrayJoin + numberParseFloat', want, got))
        if log != [vs]:
            fails.append(('script: systemLog text', [vs], log[:3]))
        if math.copysign(1.0, x) > 0:
            res = safe(lambda: m['runtime'].execute_script(m['parser'].parse_script('return ' + vs), {'maxStatements': 10}))
            if fhex(res) != x.hex():
                fails.append(('script: literal evaluates to x', x.hex(), fhex(res)))
    return vs, fails


def check_int(n):
    """Property oracles for a Python int carrier."""
    m = fw.impl()
    fails = []
    vs = safe(m['value'].value_string, n)
    want = str(n)
    if vs != want or not RE_DIGITS.fullmatch(want):
        fails.append(('int-prints-as-digits', want, vs))
        return vs, fails
    back = call_lib('numberParseInt', [vs])
    if type(back) is not int or back != n:  # pylint: disable=unidiomatic-typecheck
        fails.append(('numberParseInt(value_string(n))==n', str(n), fhex(back)))
    if abs(n) < 10 ** 300:
        backf = call_lib('numberParseFloat', [vs])
        if fhex(backf) != float(n).hex() and not (n == 0 and backf == 0):
            fails.append(('numberParseFloat(value_string(n))==float(n)', float(n).hex(), fhex(backf)))
        if n >= 0:
            expr = safe(m['parser'].parse_expression, vs)
            got = {'number': fhex(expr['number'])} if isinstance(expr, dict) and set(expr) == {'number'} else expr
            if got != {'number': float(n).hex()}:
                fails.append(('parse_expression(value_string(n))=={number:n}', {'number': float(n).hex()}, got))
    res = safe(run_script, 'intcat', "return '' + x", {'x': n})
    if res != want:
        fails.append(('script: int concat', want, res))
    return vs, fails


def impl_parse(fn, text, radix=None):
    """numberParseFloat / numberParseInt through the library table (with argument validation) and through a script."""
    args = [text] if radix is None else [text, radix]
    lib = call_lib(fn, args)
    src = 'return %s(t)' % fn if radix is None else 'return %s(t, r)' % fn
    scr = safe(run_script, fn + str(radix is None), src, {'t': text, 'r': radix})
    return lib, scr


def check_parse(fn, text, radix=None):
    """Oracles: the result is null or a finite number, and a number only if the whole text is a number (docs grammar)."""
    fails = []
    lib, scr = impl_parse(fn, text, radix)
    if isinstance(lib, dict) and 'swallowed' in lib:
        lib = None      # any other exception inside a library call is swallowed by the call wrapper: null
    same = (lib is None and scr is None) or (type(lib) is type(scr) and lib == scr and not isinstance(lib, dict))
    if not same:
        fails.append(('library call and script call agree', canon_num(lib), canon_num(scr)))
    res = lib
    if res is None:
        return res, fails
    case = {'fn': fn, 'text': text, 'radix': radix}
    if fn == 'numberParseFloat':
        if type(res) is not float or not math.isfinite(res):  # pylint: disable=unidiomatic-typecheck
            fails.append(('result is null or a finite number', 'None|finite float', canon_num(res)))
        else:
            want = ref_float(text) if isinstance(text, str) else None
            if want is None or want != res:
                fails.append(('a number only for text that is a number as a whole (docs grammar)', canon_num(want), canon_num(res)))
    else:
        rdx = 10 if radix is None else radix
        ok_radix = isinstance(rdx, (int, float)) and not isinstance(rdx, bool) and math.isfinite(rdx) and rdx == int(rdx) and 2 <= rdx <= 36
        if type(res) is not int:  # pylint: disable=unidiomatic-typecheck
            fails.append(('result is null or an integer', 'None|int', canon_num(res)))
        else:
            want = ref_int(text, int(rdx)) if ok_radix and isinstance(text, str) else None
            if want is None or want != res:
                fails.append(('an integer only for text that is an integer literal as a whole (docs grammar)', canon_num(want), canon_num(res)))
    del case
    return res, fails


def canon_num(v):
    """Exact canonical form of a parser result: None | ['int', 'digits'] | [num, den] as strings | error form."""
    if v is None:
        return None
    if isinstance(v, bool):
        return {'bool': v}
    if isinstance(v, int):
        return ['int', hex(v)]      # hexadecimal: no int/str digit limit
    if isinstance(v, float):
        if math.isnan(v) or math.isinf(v):
            return {'nonfinite': repr(v)}
        fr = Fraction(v)
        return [str(fr.numerator), str(fr.denominator)]
    if isinstance(v, dict):
        return v
    return {'other': repr(v)[:80]}


def model_int(resp):
    """Model parseInt answer {'hex': '-?hexdigits' | None} -> int | None (hexadecimal: no int/str digit limit on the wire)."""
    if 'hex' not in resp:
        return {'bad': resp}
    return None if resp['hex'] is None else int(resp['hex'], 16)


def model_float(resp_value):
    """Model [num, den] -> the double CPython's correctly rounded conversion gives (int / int is correctly rounded)."""
    if resp_value is None:
        return None
    num, den = resp_value
    try:
        return num / den
    except OverflowError:
        return math.inf if num > 0 else -math.inf


# ---------------------------------------------------------------------------------------------------------------------
# generators
# ---------------------------------------------------------------------------------------------------------------------

def bits_to_float(b):
    return struct.unpack('<d', struct.pack('<Q', b))[0]


def float_to_bits(x):
    return struct.unpack('<Q', struct.pack('<d', x))[0]


def neighbours(x, k=2):
    out = [x]
    up = dn = x
    for _ in range(k):
        up = math.nextafter(up, math.inf)
        dn = math.nextafter(dn, -math.inf)
        out += [up, dn]
    return [v for v in out if math.isfinite(v)]


def directed_doubles():
    out = [0.0, -0.0, 5e-324, -5e-324, 2.2250738585072014e-308, 2.225073858507201e-308, 1.7976931348623157e308, -1.7976931348623157e308,
           0.1, 0.2, 0.3, 0.1 + 0.2, 1 / 3, 2 / 3, 1.5, 123.0, 100.0, 1e5, 1.5e-7, 0.0001, 0.00001, 9.999999999999999e22, 1e23]
    for e in range(-320, 309):
        v = float('1e%d' % e)
        out += neighbours(v, 1)
        out += [-v, float('5e%d' % e) if e < 308 else v, float('9.5e%d' % e) if e < 308 else v]
    for base in (2.0 ** 53, 1e15, 1e16, 1e21, 1e22, 2.0 ** 63, 2.0 ** 64, 1e17, 9007199254740993.0):
        for v in neighbours(base, 6):
            out += [v, -v]
        for d in range(-6, 7):
            out.append(base + d)
    for e in range(-1074, -1021, 3):    # subnormals
        out += [2.0 ** e, 3 * 2.0 ** e if e > -1074 else 2.0 ** e]
    for k in range(0, 70):              # powers of two and halves: integral / dyadic
        out += [2.0 ** k, 2.0 ** -k, 2.0 ** k + 0.5, -(2.0 ** k)]
    return [v for v in out if math.isfinite(v)]


def random_doubles(rng, n):
    out = []
    while len(out) < n:
        r = rng.random()
        if r < 0.55:
            x = bits_to_float(rng.getrandbits(64))                       # uniform bit pattern
        elif r < 0.70:
            x = float(rng.randint(-10 ** rng.randint(1, 17), 10 ** rng.randint(1, 17)))   # integral, around the 1e16 switch
        elif r < 0.85:
            x = rng.randint(-10 ** 9, 10 ** 9) / 10 ** rng.randint(0, 12)   # short decimals
        elif r < 0.92:
            x = bits_to_float(rng.getrandbits(52) | (rng.getrandbits(1) << 63))   # subnormal
        else:
            x = math.ldexp(rng.randint(1, 2 ** 53), rng.randint(-60, 20))       # dyadic, often integral
        if math.isfinite(x):
            out.append(x)
    return out


def int_cases(rng, n):
    out = [0, 1, -1, 9, 10, -10, 2 ** 53, 2 ** 53 + 1, -(2 ** 53) - 1, 10 ** 15, 10 ** 16, 10 ** 16 + 1, 10 ** 21, 10 ** 22, 2 ** 63, 2 ** 64,
           10 ** 299, -(10 ** 299), 10 ** 300 - 1, 10 ** 4000, -(10 ** 4299) + 1]
    for k in range(1, 300, 7):
        out += [10 ** k, 10 ** k - 1, -(10 ** k) - 1]
    while len(out) < n:
        digits = rng.choice([1, 2, 5, 10, 16, 17, 20, 25, 50, 100, 200, 300])
        out.append(rng.randint(-10 ** digits, 10 ** digits))
    return out


UNI_DIGIT_ZEROS = [0x660, 0x6f0, 0x966, 0xff10, 0x1d7ce, 0x1e950, 0x9e6]
WS_ASCII = ['', '', '', '', ' ', '  ', '\t', '\n', ' \r\n', '\x0b', '\x0c']
WS = WS_ASCII * 4 + ['\xa0', chr(0x2003), chr(0x3000), '\x1c', '\x1f', chr(0xfeff), '\x85', chr(0x200b)]
MUT_ALPHABET = list('0123456789+-._eExXoObBinfatyINFATY zZgG9 \t\n/,\'"') + [chr(0x663), chr(0xff15), '\xa0', '\x00', '\xb2', chr(0x2167),
                                                                             chr(0x661)]


def gen_digits(rng, lo=1, hi=6, radix=10, uni=0.04, us=0.08):
    n = rng.randint(lo, hi)
    out = []
    for i in range(n):
        d = rng.randrange(radix)
        if d < 10:
            if rng.random() < uni:
                out.append(chr(rng.choice(UNI_DIGIT_ZEROS) + d))
            else:
                out.append(str(d))
        else:
            out.append(chr(87 + d) if rng.random() < 0.6 else chr(55 + d))
        if i + 1 < n and rng.random() < us:
            out.append('_' if rng.random() < 0.9 else '__')
    return ''.join(out)


def mutate(rng, text):
    r = rng.random()
    if r < 0.55 or not text:
        return text
    chars = list(text)
    for _ in range(rng.choice([1, 1, 1, 2, 3])):
        op = rng.random()
        pos = rng.randrange(len(chars) + 1)
        if op < 0.45:
            chars.insert(pos, rng.choice(MUT_ALPHABET))
        elif op < 0.75 and chars:
            del chars[min(pos, len(chars) - 1)]
        elif chars:
            chars[min(pos, len(chars) - 1)] = rng.choice(MUT_ALPHABET)
    return ''.join(chars)


def gen_float_text(rng):
    r = rng.random()
    sign = rng.choice(['', '', '', '+', '-'])
    if r < 0.12:
        word = rng.choice(['inf', 'infinity', 'nan', 'Infinity', 'INF', 'NaN', 'iNfIniTy', 'infinit', 'in', 'na', 'nane', 'infi', 'nan0'])
        body = sign + word
    else:
        form = rng.random()
        ip = gen_digits(rng, 1, rng.choice([1, 3, 6, 20, 40]))
        fp = gen_digits(rng, 1, rng.choice([1, 3, 6, 20]))
        if form < 0.3:
            num = ip
        elif form < 0.65:
            num = ip + '.' + fp
        elif form < 0.8:
            num = '.' + fp
        elif form < 0.95:
            num = ip + '.'
        else:
            num = '.'
        exp = ''
        if rng.random() < 0.45:
            emag = rng.choice([gen_digits(rng, 1, 2), gen_digits(rng, 1, 3), str(rng.randint(290, 340)), str(rng.randint(0, 2000)), ''])
            exp = rng.choice(['e', 'e', 'E']) + rng.choice(['', '+', '-', '-']) + emag
        body = sign + num + exp
    return rng.choice(WS) + mutate(rng, body) + rng.choice(WS)


def gen_int_case(rng):
    r = rng.random()
    if r < 0.7:
        radix = rng.choice([10, 10, 10, 2, 8, 16, 16, 36, 36, rng.randint(2, 36)])
    elif r < 0.8:
        radix = float(rng.choice([10, 16, 2, 36]))
    elif r < 0.9:
        radix = rng.choice([0, 1, 37, -1, -16, 2.5, 10.5, 1e3, 36.0000001, 64])
    else:
        radix = None
    rdx = int(radix) if isinstance(radix, (int, float)) and 2 <= radix <= 36 and radix == int(radix) else 10
    sign = rng.choice(['', '', '', '+', '-'])
    prefix = ''
    if rng.random() < 0.25:
        prefix = rng.choice(['0x', '0X', '0o', '0O', '0b', '0B', '0x_', '0b_', '0o_', '0x__', '0', '0_'])
    if rng.random() < 0.2:
        prefix = {16: '0x', 8: '0o', 2: '0b'}.get(rdx, prefix) if rng.random() < 0.7 else prefix
    digits = gen_digits(rng, 1, rng.choice([1, 3, 8, 30]), radix=min(36, rdx + (1 if rng.random() < 0.1 else 0)))
    tail = rng.choice(['', '', '', '', '', '.0', '.5', 'e5', 'L', 'n'])
    return rng.choice(WS) + mutate(rng, sign + prefix + digits + tail) + rng.choice(WS), radix


def load_corpus():
    path = os.path.join(fw.VERIF, 'harness', 'corpus', 'C13.jsonl')
    rows = []
    if os.path.exists(path):
        with open(path, encoding='utf-8') as fh:
            for ln in fh:
                ln = ln.strip()
                if ln and not ln.startswith('#'):
                    rows.append(json.loads(ln))
    return rows


def radix_wire(radix):
    fr = Fraction(10 if radix is None else radix)
    return [fr.numerator, fr.denominator]


# ---------------------------------------------------------------------------------------------------------------------
# streams
# ---------------------------------------------------------------------------------------------------------------------

def tables_obligation(ctx):
    """The character tables the model hard-codes are the ones of the running interpreter."""
    tab = ctx.driver.batch([{'op': 'tables'}])[0]
    zeros = [c for c in range(0x80, 0x110000) if unicodedata.decimal(chr(c), None) == 0]
    blocks = all(unicodedata.decimal(chr(z + i), None) == i for z in zeros for i in range(10))
    n_dec = sum(1 for c in range(0x80, 0x110000) if unicodedata.decimal(chr(c), None) is not None)
    ctx.obligation('table:unicode-decimal-digits', tab.get('uniZeros') == zeros and blocks and n_dec == 10 * len(zeros),
                   f'model {len(tab.get("uniZeros", []))} blocks, unicodedata {unicodedata.unidata_version} has {len(zeros)}')
    spaces = [c for c in range(0x110000) if chr(c).isspace()]
    ctx.obligation('table:unicode-spaces', tab.get('reSpaces') == spaces, f'model {tab.get("reSpaces")} vs str.isspace {spaces}')
    ctx.obligation('table:ascii', tab.get('pySpaces') == [9, 10, 11, 12, 13, 32] and tab.get('digits') == list(range(48, 58)), '')
    ctx.obligation('table:overflow-bound', tab.get('overflowBound') == 2 ** 1024 - 2 ** 970
                   and float(2 ** 1024 - 2 ** 970 - 1) == sys.float_info.max and safe(float, str(2 ** 1024 - 2 ** 970)) == math.inf, '')


def stream_numtext(ctx):
    st = ctx.stream('numtext', 'finite doubles: corpus + directed (powers of ten 1e-320..1e308 and neighbours, around 2^53/1e15/1e16/1e21/1e22, '
                               'subnormals, +-0, dyadics) + random (55% uniform 64-bit patterns, integral around the 1e16 switch, short '
                               'decimals, subnormals, dyadics); per x: value_string vs model strip(repr x), IsRepr(repr x), decVal, '
                               'numberParseFloat, literal; non-trivial = every finite x (distinct bit patterns counted)')
    rng = ctx.rng('numtext')
    xs = [float.fromhex(r['double']) for r in load_corpus() if 'double' in r]
    xs += directed_doubles()
    xs += random_doubles(rng, ctx.scale(12000, 215000))
    script_every = ctx.scale(1, 1)
    reqs = []
    for x in xs:
        r = repr(x)
        reqs.append({'op': 'isRepr', 'text': r})
        reqs.append({'op': 'valueString', 'repr': r})
    resps = ctx.driver.batch(reqs)
    reqs2 = []
    texts = []
    for i, x in enumerate(xs):
        mvs = resps[2 * i + 1]['text']
        texts.append(mvs)
        reqs2.append({'op': 'decVal', 'text': mvs})
        reqs2.append({'op': 'parseFloat', 'text': mvs})
        reqs2.append({'op': 'literal', 'text': mvs})
    resps2 = ctx.driver.batch(reqs2)
    for i, x in enumerate(xs):
        r = repr(x)
        mvs = texts[i]
        form = 'sci' if 'e' in r else ('fixed-integral' if r.endswith('.0') else 'fixed-fraction')
        st.case(x.hex(), nontrivial=True, tags=[form, 'neg' if math.copysign(1, x) < 0 else 'nonneg',
                                                'subnormal' if x != 0 and abs(x) < 2.2250738585072014e-308 else 'normal'])
        vs, fails = check_double(x, with_script=(i % script_every == 0))
        for oracle, want, got in fails:
            ctx.witness(oracle, {'double': x.hex(), 'repr': r}, want, got)
        # model vs implementation
        ctx.compare('numtext:value_string', {'double': x.hex(), 'repr': r}, vs, mvs)
        # assumption A1 (grammar) sampled
        ctx.compare('numtext:repr-grammar(A1)', r, True, resps[2 * i]['ok'])
        # the model's value of the text rounds to x (A1 round trip + A2), parser models agree with the implementation
        dec, pf, lit = resps2[3 * i], resps2[3 * i + 1], resps2[3 * i + 2]
        ctx.compare('numtext:decVal-rounds-to-x', mvs, x.hex() if x != 0 else 0.0.hex(),
                    fhex(model_float(dec.get('value'))) if 'value' in dec else dec)
        back = call_lib('numberParseFloat', [mvs])
        ctx.compare('numtext:numberParseFloat', mvs, canon_num(back), canon_num(model_float(pf.get('value'))) if 'value' in pf else pf)
        if math.copysign(1, x) > 0:
            try:
                expr, rest = fw.impl()['parser']._parse_unary_expression(mvs)  # pylint: disable=protected-access
                il = {'consumed': len(mvs) - len(rest), 'value': canon_num(expr.get('number'))}
            except Exception as exc:  # pylint: disable=broad-except
                il = {'error': type(exc).__name__}
            mm = lit.get('match')
            ml = {'consumed': mm['consumed'], 'value': canon_num(model_float(mm['value']))} if isinstance(mm, dict) else lit
            ctx.compare('numtext:literal', mvs, il, ml)
            if isinstance(mm, dict) and mm['consumed'] != len(mvs):
                ctx.disagree('numtext:literal-consumes-all', mvs, len(mvs), mm['consumed'])

    # Python int carriers
    ints = int_cases(rng, ctx.scale(600, 6000))
    iresps = ctx.driver.batch([{'op': 'valueString', 'int': n} for n in ints])
    maxd = sys.get_int_max_str_digits()
    iresps2 = ctx.driver.batch([{'op': 'parseInt', 'text': r['text'], 'radix': [10, 1], 'maxDigits': maxd} for r in iresps])
    for n, resp, resp2 in zip(ints, iresps, iresps2):
        st.case('int:' + str(n)[:400], nontrivial=True, tags=['int-carrier', 'int-digits-%d' % min(400, 10 * (len(str(abs(n))) // 10))])
        vs, fails = check_int(n)
        for oracle, want, got in fails:
            ctx.witness(oracle, {'int': str(n)}, want, got)
        ctx.compare('numtext:value_string(int)', str(n)[:200], vs, resp['text'])
        ctx.compare('numtext:parseInt(str(int))', str(n)[:200], n, model_int(resp2))


def parser_cases(ctx):
    rng = ctx.rng('parsers')
    cases = []
    for row in load_corpus():
        if 'text' in row:
            if row.get('fn', 'both') in ('float', 'both'):
                cases.append(('numberParseFloat', row['text'], None, 'corpus'))
            if row.get('fn', 'both') in ('int', 'both'):
                for radix in row.get('radix', [None, 10, 16, 2, 8, 36]):
                    cases.append(('numberParseInt', row['text'], radix, 'corpus'))
    maxd = sys.get_int_max_str_digits()
    for nd in (maxd - 1, maxd, maxd + 1, maxd + 700):
        cases.append(('numberParseInt', '9' * nd, None, 'digit-limit'))
        cases.append(('numberParseInt', '1' * nd, 16, 'digit-limit'))
        cases.append(('numberParseInt', ' -' + '0' * nd, 10, 'digit-limit'))
        cases.append(('numberParseInt', '1_' * (nd - 1) + '1', 9, 'digit-limit'))
    n = ctx.scale(9000, 160000)
    for _ in range(n):
        if rng.random() < 0.55:
            cases.append(('numberParseFloat', gen_float_text(rng), None, 'gen'))
        else:
            text, radix = gen_int_case(rng)
            cases.append(('numberParseInt', text, radix, 'gen'))
    # cross: float-looking text to the int parser and vice versa, random words in radix 36
    for _ in range(n // 10):
        cases.append(('numberParseInt', gen_float_text(rng), rng.choice([None, 10, 16, 36]), 'cross'))
        cases.append(('numberParseFloat', gen_int_case(rng)[0], None, 'cross'))
        word = ''.join(rng.choice('abcdefghijklmnopqrstuvwxyzABCXYZ0189_ ') for _ in range(rng.randint(1, 8)))
        cases.append(('numberParseInt', word, rng.choice([36, 36, 35, 16, 11]), 'words'))
    return cases


def stream_parsers(ctx):
    st = ctx.stream('parsers', 'numberParseFloat / numberParseInt on corpus near-misses + grammar-directed number texts (whitespace incl. Unicode, '
                               'sign, digit groups with underscores, Unicode digits, fraction/exponent forms, inf/nan words, radix prefixes, '
                               'radix 2..36 and invalid radix arguments) with 45% mutated by random edits; non-trivial = text has a '
                               'non-blank character; results compared exactly (rationals)')
    cases = parser_cases(ctx)
    maxd = sys.get_int_max_str_digits()
    reqs = []
    for fn, text, radix, _ in cases:
        if fn == 'numberParseFloat':
            reqs.append({'op': 'parseFloat', 'text': text})
        else:
            reqs.append({'op': 'parseInt', 'text': text, 'radix': radix_wire(radix), 'maxDigits': maxd})
    resps = ctx.driver.batch(reqs)
    skipped = 0
    for (fn, text, radix, origin), resp in zip(cases, resps):
        case = {'fn': fn, 'text': text, 'radix': radix}
        res, fails = check_parse(fn, text, radix)
        for oracle, want, got in fails:
            ctx.witness(oracle, case, want, got)
        st.case([fn, text[:300], len(text), radix], nontrivial=bool(text.strip()),
                tags=[fn, origin, fn + (':null' if res is None else ':number'),
                      'non-ascii' if any(ord(c) > 127 for c in text) else 'ascii', 'underscore' if '_' in text else 'plain'])
        if 'skip' in resp:
            skipped += 1
            continue
        if fn == 'numberParseFloat':
            model = canon_num(model_float(resp['value'])) if 'value' in resp else resp
        else:
            model = canon_num(model_int(resp))
        ctx.compare('parsers:' + fn, case if len(text) < 400 else {'fn': fn, 'text': text[:100] + '...', 'len': len(text), 'radix': radix},
                    canon_num(res), model)
    ctx.notes.append(f'parsers: {skipped} case(s) skipped by the driver guard (exponent beyond 2200)')

    # non-string / missing arguments: argument validation gives null
    for fn in ('numberParseFloat', 'numberParseInt'):
        for args in ([], [None], [12], [12.5], [True], [['1']], [{'a': 1}], ['1', '10'], ['1', None], ['1', True], ['1', 10, 3]):
            want = None         # (an explicit null radix is not the default: the argument is not nullable)
            got = call_lib(fn, args)
            st.case([fn, 'args', repr(args)], nontrivial=True, tags=['argument-validation'])
            if got != want or (want is not None and type(got) is not int):  # pylint: disable=unidiomatic-typecheck
                ctx.witness('argument validation: non-text gives null', {'fn': fn, 'args': args}, want, canon_num(got))


def streams(ctx):
    tables_obligation(ctx)
    stream_numtext(ctx)
    stream_parsers(ctx)


# ---------------------------------------------------------------------------------------------------------------------
# search / replay
# ---------------------------------------------------------------------------------------------------------------------

def search(ctx):
    """Directed search on the implementation only (oracles), biased to the places a changed clean-up regex / parser shows."""
    rng = ctx.rng('search')
    xs = directed_doubles() + random_doubles(rng, ctx.scale(20000, 200000))
    for x in xs:
        _, fails = check_double(x, with_script=False)
        for oracle, want, got in fails:
            ctx.witness(oracle, {'double': x.hex(), 'repr': repr(x)}, want, got)
        if ctx.witnesses:
            return
    for n in int_cases(rng, 2000):
        _, fails = check_int(n)
        for oracle, want, got in fails:
            ctx.witness(oracle, {'int': str(n)}, want, got)
        if ctx.witnesses:
            return
    for fn, text, radix, _ in parser_cases(ctx):
        _, fails = check_parse(fn, text, radix)
        for oracle, want, got in fails:
            ctx.witness(oracle, {'fn': fn, 'text': text, 'radix': radix}, want, got)
        if ctx.witnesses:
            return


def replay(witness):
    inp = witness['input']
    if 'double' in inp:
        _, fails = check_double(float.fromhex(inp['double']))
    elif 'int' in inp:
        _, fails = check_int(int(inp['int']))
    elif 'args' in inp:
        got = call_lib(inp['fn'], inp['args'])
        return canon_num(got) != witness['expected'] and got != witness['expected']
    else:
        _, fails = check_parse(inp['fn'], inp['text'], inp.get('radix'))
    return bool(fails)


# extension: the literal scanner of the expression parser is the C13 literal model; script-level round trip (DESIGN 13.9)
from props import c13x  # noqa: E402  pylint: disable=wrong-import-position
fw.attach_extension(globals(), c13x)
