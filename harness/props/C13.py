"""C13 - numbers survive conversion to text and back; integers print without a fraction."""

import json
import math
import os
import random
import re
import struct
import sys
import unicodedata
from fractions import Fraction

import fw

ID = 'C13'
LEVEL = 'proof'
LEAN_TARGETS = ['BareProofs.C13', 'BareProofs.C13Patterns']
DRIVER = 'drv_c13'
DRIVER_ROOT = 'Drv.C13'
GEN = ['Regex']
THEOREMS = [
    'C13.patterns_as_modelled',
    'C13.strip_preserves_value', 'C13.strip_integral_no_fraction', 'C13.strip_noop_on_exponent',
    'C13.strip_noop_without_trailing_dot_zeros', 'C13.strip_noop_nonfinite', 'C13.strip_is_literal',
    'C13.literal_never_raises', 'C13.parse_number_total', 'C13.parse_float_never_nonfinite', 'C13.parse_int_total',
    'C13.int_prints_digits_only', 'C13.int_text_roundtrip',
    'C13.strip_removes_trailing_dot_zeros', 'C13.numberParseFloat_strip_repr',
    'C13.roundtrip_under_assumptions', 'C13.literal_roundtrip_under_assumptions',
]
ASSUMPTIONS = [
    'A1 (not modelled, sampled): for a finite float x, repr(x) is in the grammar -?D+.D+ | -?D(.D+)?e[+-]DD+ (checked on every sampled x '
    'with the decidable IsRepr), float(repr(x)) == x, and an integral x with |x| < 1e16 has repr "<digits>.0"',
    'A2 (not modelled, sampled): float(text) is a function of the rational number the text denotes (its correct rounding; magnitudes >= '
    '2^1024 - 2^970 give inf); sampled by comparing float(text) with int/int true division of the model\'s exact [num, den]',
    'CPython re engine: stripDotZeros and the literal scanner re-implement r"\\.0*$" and _R_EXPR_NUMBER by hand; the pattern strings are '
    're-extracted (Gen/Regex) and compared by a decide-d theorem; behaviour tied by correspondence',
    'CPython float(str)/int(str, base) text grammars are re-implemented from Objects/floatobject.c, pystrtod.c, longobject.c (3.12); tied by '
    'the parsers stream. Unicode decimal digits / spaces ARE modelled: the model tables are compared with unicodedata / str.isspace at run time',
    'generator restriction: parser texts with an exponent beyond 2200, and numberParseFloat texts of more than 4000 characters that denote a finite number, '
    'are not compared with the model (the driver computes exact rationals and sends them as JSON integers; the oracles still run); '
    'lone surrogates and a non-finite radix argument are not generated (the latter belongs to C05)',
    'int/str digit limit (F17): Python ints with more than 4300 digits are not stringified; int(text) beyond '
    'sys.get_int_max_str_digits() digits is modelled (-> null)',
]
TRUSTED = ['CPython float.__repr__ / float() / int() / str(int) and the re module (see assumptions)']

LEVEL_TEXT = ('Theorems for ALL strings of the repr grammar: the clean-up r"\\.0*$" keeps the denoted rational, turns "<digits>.0" into '
              '"<digits>", is the identity on exponent forms and on inf/nan, and (for non-negative text) leaves a text the source-literal '
              'scanner consumes entirely with the same value; the models of numberParseFloat / numberParseInt only answer for text that is a '
              'number as a whole and never a non-finite value; str(int) is digits only and parses back. The round trip through '
              'numberParseFloat and through source literals follows under the explicit hypotheses A1/A2 about CPython repr/float, which are '
              'sampled on >= 200k doubles, not proved (_partial by nature: the shortest-repr algorithm is not modelled).')
LEVEL_NOTE = ('Trusted: Lean kernel; extract.py; correspondence harness. Modelled not verified: CPython re, float(str), int(str, base) text '
              'grammars (hand re-implementation tied by correspondence). Assumed: shortest round-trip repr and correctly rounded float().')

RE_NUMBER_TEXT = re.compile(r'-?\d+(\.\d*[1-9])?(e[+-]\d\d+)?')      # what a stringified finite number may look like
RE_DIGITS = re.compile(r'-?[0-9]+')


# ---------------------------------------------------------------------------------------------------------------------
# reference definitions written from the Python documentation (independent of the Lean model)
# ---------------------------------------------------------------------------------------------------------------------

_DP = r'\d(?:_?\d)*'
# https://docs.python.org/3.12/library/functions.html#float  (floatvalue, without infinity / nan which must give null)
RE_DOC_FLOAT = re.compile(r'[+-]?(?:(?:%s)?\.%s|%s\.?)(?:[eE][+-]?%s)?' % (_DP, _DP, _DP, _DP))


RE_DOC_FLOAT_PARTS = re.compile(r'([+-]?)(\d*)\.?(\d*)(?:[eE]([+-]?\d+))?')


def ref_float(text):
    """The finite float the documentation says `text` denotes, or None if `text` is not a (finite) number."""
    body = text.strip()
    if not RE_DOC_FLOAT.fullmatch(body):
        return None
    sign, ip, fp, exp = RE_DOC_FLOAT_PARTS.fullmatch(body.replace('_', '')).groups()
    digits = (ip + fp).lstrip('0' + ''.join(chr(z) for z in UNI_ALL_ZEROS))
    e10 = int(exp or '0') - len(fp)
    if not digits or len(digits) + e10 < -400:
        val = 0.0                                  # zero, or far below the smallest subnormal
    elif len(digits) + e10 > 400:
        return None                                # overflows to inf: not a finite number
    else:
        try:
            val = float(Fraction(_big_int(digits)) * Fraction(10) ** e10)
        except OverflowError:
            return None
    return -val if sign == '-' else val


def _big_int(digits):
    """int(digits) for a run of (Unicode) decimal digits of any length: float() has no int/str digit limit."""
    val = 0
    for i in range(0, len(digits), 4000):
        chunk = digits[i:i + 4000]
        val = val * 10 ** len(chunk) + int(chunk)
    return val


UNI_ALL_ZEROS = [c for c in range(0x80, 0x110000) if unicodedata.decimal(chr(c), None) == 0]


def _digit_value(ch):
    dec = unicodedata.decimal(ch, None)
    if dec is not None:
        return dec
    if 'a' <= ch <= 'z':
        return ord(ch) - 87
    if 'A' <= ch <= 'Z':
        return ord(ch) - 55
    return None


def ref_int(text, radix):
    """int literal in base `radix` per https://docs.python.org/3.12/library/functions.html#int, or None."""
    body = text.strip()
    sign = 1
    if body[:1] in ('+', '-'):
        sign = -1 if body[0] == '-' else 1
        body = body[1:]
    prefix = {16: 'x', 8: 'o', 2: 'b'}.get(radix)
    # (CPython maps every Unicode decimal digit to ASCII before it looks at the text: a zero of any script starts a prefix)
    if prefix and len(body) >= 2 and unicodedata.decimal(body[0], None) == 0 and body[1].lower() == prefix:
        body = body[2:]
        if body[:1] == '_':
            body = body[1:]
    if not body or body[0] == '_' or body[-1] == '_' or '__' in body:
        return None
    val = 0
    for ch in body:
        if ch == '_':
            continue
        d = _digit_value(ch)
        if d is None or d >= radix:
            return None
        val = val * radix + d
    return sign * val


# ---------------------------------------------------------------------------------------------------------------------
# the implementation, called through its public surfaces
# ---------------------------------------------------------------------------------------------------------------------

SCRIPT_ROUNDTRIP = '''\
s1 = '' + x
s2 = x + ''
s3 = stringNew(x)
s4 = arrayJoin(arrayNew(x), ',')
systemLog(x)
return arrayNew(s1, s2, s3, s4, numberParseFloat(s1))
'''

_PARSED = {}


def _script(name, text):
    key = (id(fw.impl()['parser']), name)
    if key not in _PARSED:
        _PARSED[key] = fw.impl()['parser'].parse_script(text)
    return _PARSED[key]


def run_script(name, text, globals_, log=None):
    m = fw.impl()
    opts = {'globals': dict(globals_), 'maxStatements': 1000}
    if log is not None:
        opts['logFn'] = log.append
    return m['runtime'].execute_script(_script(name, text), opts)


def call_lib(name, args):
    """A library call the way the runtime's call wrapper treats it (runtime.py:236-250)."""
    m = fw.impl()
    try:
        return m['library'].SCRIPT_FUNCTIONS[name](list(args), None)
    except m['value'].ValueArgsError as exc:
        return exc.return_value
    except Exception as exc:  # pylint: disable=broad-except
        return {'swallowed': type(exc).__name__}


def fhex(v):
    """Exact, sign-of-zero preserving canonical form of a result that should be a float."""
    if isinstance(v, bool) or not isinstance(v, (int, float)):
        return {'not-a-number': repr(v)[:80]}
    if isinstance(v, int):
        return {'int': hex(v)[:80]}
    return v.hex()


def safe(fn, *args):
    try:
        return fn(*args)
    except Exception as exc:  # pylint: disable=broad-except
        return {'error': type(exc).__name__, 'msg': str(exc)[:100]}


def check_double(x, with_script=True):
    """Property oracles for one finite float x on the implementation. -> (value_string text, [(oracle, expected, actual)])"""
    m = fw.impl()
    fails = []
    vs = safe(m['value'].value_string, x)
    if not isinstance(vs, str):
        return None, [('value_string-returns-text', 'str', vs)]
    # shape: canonical number text; integral values are digits only
    if not RE_NUMBER_TEXT.fullmatch(vs):
        fails.append(('number-text-shape', RE_NUMBER_TEXT.pattern, vs))
    if x.is_integer() and abs(x) < 1e16:
        want = ('-' if math.copysign(1.0, x) < 0 else '') + str(abs(int(x)))
        if vs != want:
            fails.append(('integral-prints-as-digits', want, vs))
    # back through numberParseFloat (library function)
    back = call_lib('numberParseFloat', [vs])
    if fhex(back) != x.hex():
        fails.append(('numberParseFloat(value_string(x))==x', x.hex(), fhex(back)))
    # back as a source literal
    if math.copysign(1.0, x) > 0:
        expr = safe(m['parser'].parse_expression, vs)
        got = {'number': fhex(expr['number'])} if isinstance(expr, dict) and set(expr) == {'number'} else expr
        if got != {'number': x.hex()}:
            fails.append(('parse_expression(value_string(x))=={number:x}', {'number': x.hex()}, got))
    # through scripts: every stringifying surface gives the same text, and the text parses back
    if with_script:
        log = []
        res = safe(run_script, 'roundtrip', SCRIPT_ROUNDTRIP, {'x': x}, log)
        want = [vs, vs, vs, vs, x.hex()]
        got = res[:4] + [fhex(res[4])] if isinstance(res, list) and len(res) == 5 else res
        if got != want:
            fails.append(('script: concat/stringNew/arrayJoin + numberParseFloat', want, got))
        if log != [vs]:
            fails.append(('script: systemLog text', [vs], log[:3]))
        if math.copysign(1.0, x) > 0:
            res = safe(lambda: m['runtime'].execute_script(m['parser'].parse_script('return ' + vs), {'maxStatements': 10}))
            if fhex(res) != x.hex():
                fails.append(('script: literal evaluates to x', x.hex(), fhex(res)))
    return vs, fails


def check_int(n):
    """Property oracles for a Python int carrier."""
    m = fw.impl()
    fails = []
    vs = safe(m['value'].value_string, n)
    want = str(n)
    if vs != want or not RE_DIGITS.fullmatch(want):
        fails.append(('int-prints-as-digits', want, vs))
        return vs, fails
    back = call_lib('numberParseInt', [vs])
    if type(back) is not int or back != n:  # pylint: disable=unidiomatic-typecheck
        fails.append(('numberParseInt(value_string(n))==n', str(n), fhex(back)))
    if abs(n) < 10 ** 300:
        backf = call_lib('numberParseFloat', [vs])
        if fhex(backf) != float(n).hex() and not (n == 0 and backf == 0):
            fails.append(('numberParseFloat(value_string(n))==float(n)', float(n).hex(), fhex(backf)))
        if n >= 0:
            expr = safe(m['parser'].parse_expression, vs)
            got = {'number': fhex(expr['number'])} if isinstance(expr, dict) and set(expr) == {'number'} else expr
            if got != {'number': float(n).hex()}:
                fails.append(('parse_expression(value_string(n))=={number:n}', {'number': float(n).hex()}, got))
    res = safe(run_script, 'intcat', "return '' + x", {'x': n})
    if res != want:
        fails.append(('script: int concat', want, res))
    return vs, fails


def impl_parse(fn, text, radix=None):
    """numberParseFloat / numberParseInt through the library table (with argument validation) and through a script."""
    args = [text] if radix is None else [text, radix]
    lib = call_lib(fn, args)
    src = 'return %s(t)' % fn if radix is None else 'return %s(t, r)' % fn
    scr = safe(run_script, fn + str(radix is None), src, {'t': text, 'r': radix})
    return lib, scr


def check_parse(fn, text, radix=None):
    """Oracles: the result is null or a finite number, and a number only if the whole text is a number (docs grammar)."""
    fails = []
    lib, scr = impl_parse(fn, text, radix)
    if isinstance(lib, dict) and 'swallowed' in lib:
        lib = None      # any other exception inside a library call is swallowed by the call wrapper: null
    same = (lib is None and scr is None) or (type(lib) is type(scr) and lib == scr and not isinstance(lib, dict))
    if not same:
        fails.append(('library call and script call agree', canon_num(lib), canon_num(scr)))
    res = lib
    if res is None:
        return res, fails
    case = {'fn': fn, 'text': text, 'radix': radix}
    if fn == 'numberParseFloat':
        if type(res) is not float or not math.isfinite(res):  # pylint: disable=unidiomatic-typecheck
            fails.append(('result is null or a finite number', 'None|finite float', canon_num(res)))
        else:
            want = ref_float(text) if isinstance(text, str) else None
            if want is None or want != res:
                fails.append(('a number only for text that is a number as a whole (docs grammar)', canon_num(want), canon_num(res)))
    else:
        rdx = 10 if radix is None else radix
        ok_radix = isinstance(rdx, (int, float)) and not isinstance(rdx, bool) and math.isfinite(rdx) and rdx == int(rdx) and 2 <= rdx <= 36
        if type(res) is not int:  # pylint: disable=unidiomatic-typecheck
            fails.append(('result is null or an integer', 'None|int', canon_num(res)))
        else:
            want = ref_int(text, int(rdx)) if ok_radix and isinstance(text, str) else None
            if want is None or want != res:
                fails.append(('an integer only for text that is an integer literal as a whole (docs grammar)', canon_num(want), canon_num(res)))
    del case
    return res, fails


def canon_num(v):
    """Exact canonical form of a parser result: None | ['int', 'digits'] | [num, den] as strings | error form."""
    if v is None:
        return None
    if isinstance(v, bool):
        return {'bool': v}
    if isinstance(v, int):
        return ['int', hex(v)]      # hexadecimal: no int/str digit limit
    if isinstance(v, float):
        if math.isnan(v) or math.isinf(v):
            return {'nonfinite': repr(v)}
        fr = Fraction(v)
        return [str(fr.numerator), str(fr.denominator)]
    if isinstance(v, dict):
        return v
    return {'other': repr(v)[:80]}


def model_int(resp):
    """Model parseInt answer {'hex': '-?hexdigits' | None} -> int | None (hexadecimal: no int/str digit limit on the wire)."""
    if 'hex' not in resp:
        return {'bad': resp}
    return None if resp['hex'] is None else int(resp['hex'], 16)


def model_float(resp_value):
    """Model [num, den] -> the double CPython's correctly rounded conversion gives (int / int is correctly rounded)."""
    if resp_value is None:
        return None
    num, den = resp_value
    try:
        return num / den
    except OverflowError:
        return math.inf if num > 0 else -math.inf


# ---------------------------------------------------------------------------------------------------------------------
# generators
# ---------------------------------------------------------------------------------------------------------------------

def bits_to_float(b):
    return struct.unpack('<d', struct.pack('<Q', b))[0]


def float_to_bits(x):
    return struct.unpack('<Q', struct.pack('<d', x))[0]


def neighbours(x, k=2):
    out = [x]
    up = dn = x
    for _ in range(k):
        up = math.nextafter(up, math.inf)
        dn = math.nextafter(dn, -math.inf)
        out += [up, dn]
    return [v for v in out if math.isfinite(v)]


def directed_doubles():
    out = [0.0, -0.0, 5e-324, -5e-324, 2.2250738585072014e-308, 2.225073858507201e-308, 1.7976931348623157e308, -1.7976931348623157e308,
           0.1, 0.2, 0.3, 0.1 + 0.2, 1 / 3, 2 / 3, 1.5, 123.0, 100.0, 1e5, 1.5e-7, 0.0001, 0.00001, 9.999999999999999e22, 1e23]
    for e in range(-320, 309):
        v = float('1e%d' % e)
        out += neighbours(v, 1)
        out += [-v, float('5e%d' % e) if e < 308 else v, float('9.5e%d' % e) if e < 308 else v]
    for base in (2.0 ** 53, 1e15, 1e16, 1e21, 1e22, 2.0 ** 63, 2.0 ** 64, 1e17, 9007199254740993.0):
        for v in neighbours(base, 6):
            out += [v, -v]
        for d in range(-6, 7):
            out.append(base + d)
    for e in range(-1074, -1021, 3):    # subnormals
        out += [2.0 ** e, 3 * 2.0 ** e if e > -1074 else 2.0 ** e]
    for k in range(0, 70):              # powers of two and halves: integral / dyadic
        out += [2.0 ** k, 2.0 ** -k, 2.0 ** k + 0.5, -(2.0 ** k)]
    return [v for v in out if math.isfinite(v)]


def random_doubles(rng, n):
    out = []
    while len(out) < n:
        r = rng.random()
        if r < 0.55:
            x = bits_to_float(rng.getrandbits(64))                       # uniform bit pattern
        elif r < 0.70:
            x = float(rng.randint(-10 ** rng.randint(1, 17), 10 ** rng.randint(1, 17)))   # integral, around the 1e16 switch
        elif r < 0.85:
            x = rng.randint(-10 ** 9, 10 ** 9) / 10 ** rng.randint(0, 12)   # short decimals
        elif r < 0.92:
            x = bits_to_float(rng.getrandbits(52) | (rng.getrandbits(1) << 63))   # subnormal
        else:
            x = math.ldexp(rng.randint(1, 2 ** 53), rng.randint(-60, 20))       # dyadic, often integral
        if math.isfinite(x):
            out.append(x)
    return out


def int_cases(rng, n):
    out = [0, 1, -1, 9, 10, -10, 2 ** 53, 2 ** 53 + 1, -(2 ** 53) - 1, 10 ** 15, 10 ** 16, 10 ** 16 + 1, 10 ** 21, 10 ** 22, 2 ** 63, 2 ** 64,
           10 ** 299, -(10 ** 299), 10 ** 300 - 1, 10 ** 4000, -(10 ** 4299) + 1]
    for k in range(1, 300, 7):
        out += [10 ** k, 10 ** k - 1, -(10 ** k) - 1]
    while len(out) < n:
        digits = rng.choice([1, 2, 5, 10, 16, 17, 20, 25, 50, 100, 200, 300])
        out.append(rng.randint(-10 ** digits, 10 ** digits))
    return out


UNI_DIGIT_ZEROS = [0x660, 0x6f0, 0x966, 0xff10, 0x1d7ce, 0x1e950, 0x9e6]
WS_ASCII = ['', '', '', '', ' ', '  ', '\t', '\n', ' \r\n', '\x0b', '\x0c']
WS = WS_ASCII * 4 + ['\xa0', chr(0x2003), chr(0x3000), '\x1c', '\x1f', chr(0xfeff), '\x85', chr(0x200b)]
MUT_ALPHABET = list('0123456789+-._eExXoObBinfatyINFATY zZgG9 \t\n/,\'"') + [chr(0x663), chr(0xff15), '\xa0', '\x00', '\xb2', chr(0x2167),
                                                                             chr(0x661)]


def gen_digits(rng, lo=1, hi=6, radix=10, uni=0.04, us=0.08):
    n = rng.randint(lo, hi)
    out = []
    for i in range(n):
        d = rng.randrange(radix)
        if d < 10:
            if rng.random() < uni:
                out.append(chr(rng.choice(UNI_DIGIT_ZEROS) + d))
            else:
                out.append(str(d))
        else:
            out.append(chr(87 + d) if rng.random() < 0.6 else chr(55 + d))
        if i + 1 < n and rng.random() < us:
            out.append('_' if rng.random() < 0.9 else '__')
    return ''.join(out)


def mutate(rng, text):
    r = rng.random()
    if r < 0.55 or not text:
        return text
    chars = list(text)
    for _ in range(rng.choice([1, 1, 1, 2, 3])):
        op = rng.random()
        pos = rng.randrange(len(chars) + 1)
        if op < 0.45:
            chars.insert(pos, rng.choice(MUT_ALPHABET))
        elif op < 0.75 and chars:
            del chars[min(pos, len(chars) - 1)]
        elif chars:
            chars[min(pos, len(chars) - 1)] = rng.choice(MUT_ALPHABET)
    return ''.join(chars)


def gen_float_text(rng):
    r = rng.random()
    sign = rng.choice(['', '', '', '+', '-'])
    if r < 0.12:
        word = rng.choice(['inf', 'infinity', 'nan', 'Infinity', 'INF', 'NaN', 'iNfIniTy', 'infinit', 'in', 'na', 'nane', 'infi', 'nan0'])
        body = sign + word
    else:
        form = rng.random()
        ip = gen_digits(rng, 1, rng.choice([1, 3, 6, 20, 40]))
        fp = gen_digits(rng, 1, rng.choice([1, 3, 6, 20]))
        if form < 0.3:
            num = ip
        elif form < 0.65:
            num = ip + '.' + fp
        elif form < 0.8:
            num = '.' + fp
        elif form < 0.95:
            num = ip + '.'
        else:
            num = '.'
        exp = ''
        if rng.random() < 0.45:
            emag = rng.choice([gen_digits(rng, 1, 2), gen_digits(rng, 1, 3), str(rng.randint(290, 340)), str(rng.randint(0, 2000)), ''])
            exp = rng.choice(['e', 'e', 'E']) + rng.choice(['', '+', '-', '-']) + emag
        body = sign + num + exp
    return rng.choice(WS) + mutate(rng, body) + rng.choice(WS)


def gen_int_case(rng):
    r = rng.random()
    if r < 0.7:
        radix = rng.choice([10, 10, 10, 2, 8, 16, 16, 36, 36, rng.randint(2, 36)])
    elif r < 0.8:
        radix = float(rng.choice([10, 16, 2, 36]))
    elif r < 0.9:
        radix = rng.choice([0, 1, 37, -1, -16, 2.5, 10.5, 1e3, 36.0000001, 64])
    else:
        radix = None
    rdx = int(radix) if isinstance(radix, (int, float)) and 2 <= radix <= 36 and radix == int(radix) else 10
    sign = rng.choice(['', '', '', '+', '-'])
    prefix = ''
    if rng.random() < 0.25:
        prefix = rng.choice(['0x', '0X', '0o', '0O', '0b', '0B', '0x_', '0b_', '0o_', '0x__', '0', '0_'])
    if rng.random() < 0.2:
        prefix = {16: '0x', 8: '0o', 2: '0b'}.get(rdx, prefix) if rng.random() < 0.7 else prefix
    digits = gen_digits(rng, 1, rng.choice([1, 3, 8, 30]), radix=min(36, rdx + (1 if rng.random() < 0.1 else 0)))
    tail = rng.choice(['', '', '', '', '', '.0', '.5', 'e5', 'L', 'n'])
    return rng.choice(WS) + mutate(rng, sign + prefix + digits + tail) + rng.choice(WS), radix


# ---------------------------------------------------------------------------------------------------------------------
# NEAR-NUMBER texts: how other locales and tools write numbers (after R9C13-m1: a "convenience" retry of text that float()
# rejected).  The accepted grammar is the one of float() / int(, radix) after strip (property statement + value.py:447-481 +
# NumText): sign, digits with single underscores between digits (any Unicode decimal digit), '.', e/E exponent.  Everything
# else here must give null; what IS in the grammar must give exactly the denoted number, and never a non-finite one.
# ---------------------------------------------------------------------------------------------------------------------

NEAR_SIZES = [1, 2, 3, 4, 5, 6, 7, 9, 10, 11, 12, 15, 16, 17, 20, 21, 22, 64, 65, 100, 101, 128, 129, 256, 308, 309, 310, 400, 1000, 5000]
NEAR_SIZES_W = [12] * 12 + [5] * 5 + [3] * 6 + [2] + [2] * 4 + [1, 1]       # weights: short texts dominate, the long ones stay affordable
GROUP_SEPS = [',', '.', '_', ' ', chr(0x2009), chr(0x202f), '\xa0', "'", chr(0x2019), chr(0x66c), '\xb7', '`', '__', ', ', chr(0xff0c)]
DEC_MARKS = ['.', '.', ',', ',', chr(0x66b), '\xb7', "'", ' ', '..', ',,', chr(0xff0e), chr(0x2396)]
SCRIPT_ZEROS = [0xff10, 0x660, 0x6f0, 0x966, 0x9e6, 0xe50, 0x1d7ce, 0x1d7d8, 0x1e950, 0x104a0]
DIGIT_LIKE = list('\xb2\xb3\xb9') + [chr(c) for c in (0x2070, 0x2074, 0x2080, 0x2081, 0x2460, 0x2469, 0x2167, 0x2160, 0x2169, 0x3007, 0x4e00, 0x4e8c,
                                                      0x4e09, 0x5341, 0x767e, 0x5343, 0x4e07, 0x96f6, 0xbd, 0xbc, 0xbe, 0x2153, 0x1369, 0x136a,
                                                      0x3021, 0x2776, 0x24ea, 0x09f4, 0x0bf0, 0x10107)]
NEAR_PREFIXES = ['$', chr(0x20ac), '\xa3', '\xa5', chr(0x20b9), 'USD ', 'US$', 'R$ ', '#', '~', chr(0x2248), '=', '<', '>', '\xb1', 'ca. ', 'No. ',
                 'n=', "'", '"', '+$', '-$', '$-', '$ ', 'EUR', 'x', '*', '@', 'v', '\\']
NEAR_SUFFIXES = ['%', ' %', chr(0x2030), chr(0x66a), chr(0x20ac), ' ' + chr(0x20ac), ' EUR', '$', 'px', 'em', 'pt', 'kg', ' kg', 'm', ' m', 'k', 'K', 'M',
                 'G', 'Ki', 'f', 'F', 'd', 'D', 'L', 'l', 'n', 'u', 'U', 'UL', 'j', 'J', 'i', 'h', 'b', 'o', '\xb0', '\xb0C', ' deg', 'st', 'th',
                 '.-', ',-', ':-', '!', ';', ',', '.', ':', '"', "'", 'e', 'E', 'x', 'X', '_', '#', ' 1', ' 0', '\x00', 'cm', 'ms', 's', 'B', 'kB',
                 'e0x', 'bp', '\'', 'rad', 'th', 'nd', ',00', '.00', ',0', ',-']
NEAR_EXP_MARKS = ['e', 'E', 'e+', 'e-', 'E+', 'E-', 'x10^', chr(0xd7) + '10^', chr(0xd7) + '10', '*10^', '*10**', 'x10', ' x 10^', 'e ', ' e', 'ee', 'e+-',
                  'e-+', 'e++', 'd', 'D', 'd+', 'D-', 'q', 'p', 'P', 'p+', '^', '**', chr(0x23e8), chr(0x1d07), chr(0xff45), chr(0x435), chr(0x212f),
                  chr(0x2147), 'e' + chr(0x2212), 'e' + chr(0xff0b), 'E_', 'e.', 'e0x', 'exp', '\xb710^', 'e^']
NEAR_EXPONENTS = [0, 1, 2, 5, 10, 15, 16, 22, 23, 100, 292, 300, 307, 308, 309, 310, 323, 324, 325, 400, 1000, 2000, 5000]
SUPERSCRIPT = {'0': chr(0x2070), '1': '\xb9', '2': '\xb2', '3': '\xb3', '4': chr(0x2074), '5': chr(0x2075), '6': chr(0x2076), '7': chr(0x2077),
               '8': chr(0x2078), '9': chr(0x2079), '-': chr(0x207b), '+': chr(0x207a)}
NONFINITE_WORDS = ['inf', 'infinity', 'nan', 'infinite', 'infinit', 'infinityy', 'infinitys', 'infini', 'in', 'i', 'n', 'na', 'nann', 'nan0', 'nan()',
                   'nan(1)', 'nan(0x7ff)', 'nan(ind)', 'qnan', 'snan', 'nanq', 'nans', '1.#INF', '-1.#IND', '1.#QNAN', '1.#SNAN', chr(0x221e),
                   '.inf', '.nan', '.Inf', '.NaN', '-.inf', 'inf.', 'inf.0', 'nan.0', 'inf_', '_inf', 'i_nf', 'in f', 'in_f', 'infe1', 'infE1', '1einf',
                   'einf', 'inf1', '1inf', '0inf', '0nan', '0x inf', '0xinf', 'NaN%', 'null', 'None', 'none', 'nil', 'undefined', 'NA', 'N/A', 'n/a',
                   '#N/A', '#NUM!', '#DIV/0!', 'true', 'false', 'True', 'oo', 'Inf/Inf', '1/0', '-1/0', '0/0', 'huge', 'max', 'e', 'E', 'pi',
                   chr(0xff49) + chr(0xff4e) + chr(0xff46), chr(0x131) + 'nf', chr(0x130) + 'nf', chr(0x2139) + 'nf', chr(0x26a) + 'nf',
                   chr(0x131) + 'nf' + chr(0x131) + 'n' + chr(0x131) + 'ty', 'na' + chr(0xff4e), chr(0x578) + 'an', 'NaN' + chr(0x200b), 'i' + chr(0x200d) + 'nf']
NEAR_SIGNS_PRE = ['-', '+', '++', '--', '+-', '-+', '- ', '+ ', chr(0x2212), chr(0xff0d), chr(0xff0b), chr(0x2013), chr(0x2014), chr(0x2010), chr(0xfe63),
                  chr(0x207b), chr(0x208b), '-(', '\xb1', '~', '!', '-\t', '+\n', '\xad', chr(0x2796), chr(0x2795), '---', '+++', '-.', '.-']
NEAR_RADIXES = [None, 10, 10, 16, 36, 2, 8]


def to_script(text, zero):
    """ASCII digits of `text` written with the decimal digits of another script (zero = code point of its digit zero)."""
    return ''.join(chr(zero + ord(c) - 48) if '0' <= c <= '9' else c for c in text)


def near_digits(rng, n, style=None):
    style = style or rng.choice(['random', 'random', 'random', 'one-zeros', 'nines', 'max-double', 'lead-zeros'])
    if style == 'one-zeros' or n <= 0:
        return '1' + '0' * (n - 1)
    if style == 'nines':
        return '9' * n
    if style == 'max-double' and n >= 17:         # 1.7976931348623157e308 and its neighbours when n == 309
        return '1797693134862315' + rng.choice(['7', '8', '8', '9']) + rng.choice(['0', '0', '9']) * (n - 17)
    if style == 'lead-zeros' and n >= 2:
        z = rng.randint(1, n - 1)
        return '0' * z + ''.join(rng.choice('0123456789') for _ in range(n - z))
    return rng.choice('123456789') + ''.join(rng.choice('0123456789') for _ in range(n - 1))


def group_digits(rng, digits, sep, style):
    """Digit grouping of other locales / tools: correctly (3 from the right, Indian 3-2-2, myriads) and incorrectly grouped."""
    n = len(digits)
    if style in ('correct3', 'lead', 'trail', 'double'):
        cuts = list(range(n - 3, 0, -3))
    elif style == 'indian':
        cuts = [n - 3] + list(range(n - 5, 0, -2)) if n > 3 else []
    elif style == 'myriad4':
        cuts = list(range(n - 4, 0, -4))
    elif style == 'left3':
        cuts = list(range(3, n, 3))
    elif style == 'every':
        cuts = list(range(1, n))
    elif style == 'last-short':
        cuts = list(range(n - 2, 0, -3))
    elif style == 'one':
        cuts = [rng.randint(1, n - 1)] if n > 1 else []
    else:                                                   # random group sizes
        cuts, pos = [], 0
        while True:
            pos += rng.randint(1, 5)
            if pos >= n:
                break
            cuts.append(pos)
    cuts = sorted(c for c in set(cuts) if 0 < c < n)
    parts, prev = [], 0
    for c in cuts:
        parts.append(digits[prev:c])
        prev = c
    parts.append(digits[prev:])
    if style == 'double' and len(parts) > 1:
        k = rng.randrange(1, len(parts))
        parts[k] = sep + parts[k]
    out = sep.join(parts)
    if style == 'lead':
        out = sep + out
    if style == 'trail':
        out = out + sep
    return out


GROUP_STYLES = ['correct3', 'correct3', 'correct3', 'indian', 'myriad4', 'left3', 'every', 'last-short', 'one', 'random', 'lead', 'trail', 'double']


def near_size(rng):
    return NEAR_SIZES[_weighted(rng, NEAR_SIZES_W)]


def _weighted(rng, weights):
    r = rng.randrange(sum(weights))
    for i, w in enumerate(weights):
        r -= w
        if r < 0:
            return i
    return len(weights) - 1


def near_plain(rng, small=False):
    """A text of the accepted grammar (mostly): the core the other notations decorate."""
    n = rng.choice([1, 2, 3, 4, 6]) if small else near_size(rng)
    ip = near_digits(rng, n)
    r = rng.random()
    if r < 0.5:
        return ip
    fp = near_digits(rng, rng.choice([1, 2, 3, 6]), 'random')
    if r < 0.8:
        return ip + '.' + fp
    if r < 0.9:
        return ip + '.'
    return '.' + fp


def near_grouped(rng):
    sep = rng.choice(GROUP_SEPS)
    style = rng.choice(GROUP_STYLES)
    ip = group_digits(rng, near_digits(rng, near_size(rng)), sep, style)
    r = rng.random()
    sign = rng.choice(['', '', '', '-', '+'])
    if r < 0.45:
        return sign + ip
    fp = near_digits(rng, rng.choice([1, 2, 3, 4, 6, 9]), 'random')
    if rng.random() < 0.3:
        fp = group_digits(rng, fp, rng.choice([sep, ' ', '_']), rng.choice(['left3', 'correct3']))
    mark = rng.choice(['.', '.', '.', ',', ',', sep])
    if r < 0.85:
        return sign + ip + mark + fp
    return sign + ip + mark


def near_decimal_mark(rng):
    mark = rng.choice(DEC_MARKS)
    sign = rng.choice(['', '', '', '-', '+'])
    ip = near_digits(rng, near_size(rng))
    fp = near_digits(rng, rng.choice([1, 2, 3, 6, 17]), 'random')
    r = rng.random()
    if r < 0.6:
        body = ip + mark + fp
    elif r < 0.75:
        body = mark + fp
    elif r < 0.9:
        body = ip + mark
    else:
        body = ip + mark + fp + rng.choice(['.', ',']) + near_digits(rng, 2)       # two marks: 1.234,56  1,234.56.7
    if rng.random() < 0.3:
        body += rng.choice(['e', 'E']) + rng.choice(['', '-', '+']) + str(rng.choice([0, 1, 5, 10]))
    return sign + body


def near_affix(rng):
    core = rng.choice(['', '', '', '-', '+']) + near_plain(rng, small=rng.random() < 0.8)
    r = rng.random()
    if r < 0.4:
        return core + rng.choice(NEAR_SUFFIXES)
    if r < 0.75:
        return rng.choice(NEAR_PREFIXES) + core
    return rng.choice(NEAR_PREFIXES) + core + rng.choice(NEAR_SUFFIXES)


def near_sign(rng):
    core = near_plain(rng, small=rng.random() < 0.8)
    r = rng.random()
    if r < 0.4:
        return rng.choice(NEAR_SIGNS_PRE) + core
    if r < 0.6:
        return core + rng.choice(['-', '+', ' -', ' +', '--', chr(0x2212), '-.', ' CR', ' DR', 'CR', '-0', '+0', '-1'])
    if r < 0.85:
        op, cl = rng.choice(['()', '()', '()', '[]', '<>', '{}', '||', ('( ', ' )'), ('(-', ')'), ('-(', ')'), ('(', ''), ('', ')'),
                             (chr(0xff08), chr(0xff09)), ('((', '))'), ('(+', ')')])
        return op + core + cl
    return rng.choice(['-', '+']) + rng.choice(['', ' ', '\t', '\xa0', '_', '0 ']) + rng.choice(['-', '+', '']) + core


def near_script(rng):
    core = rng.choice(['', '', '-', '+']) + near_plain(rng)
    if rng.random() < 0.35:
        core += rng.choice(['e', 'E']) + rng.choice(['', '-', '+']) + str(rng.choice([0, 1, 5, 10, 300, 308, 309, 400]))
    r = rng.random()
    if r < 0.45:                                             # whole text in one other script (accepted by float / int)
        out = to_script(core, rng.choice(SCRIPT_ZEROS))
    elif r < 0.7:                                            # scripts mixed digit by digit
        out = ''.join(to_script(c, rng.choice(SCRIPT_ZEROS)) if rng.random() < 0.4 else c for c in core)
    else:                                                    # digit-like characters that are NOT decimal digits
        chars = list(core)
        for _ in range(rng.choice([1, 1, 2])):
            pos = rng.randrange(len(chars) + 1)
            if rng.random() < 0.5 and pos < len(chars):
                chars[pos] = rng.choice(DIGIT_LIKE)
            else:
                chars.insert(pos, rng.choice(DIGIT_LIKE))
        out = ''.join(chars)
    if rng.random() < 0.25:                                  # other scripts' signs / marks
        out = out.replace('-', rng.choice([chr(0x2212), chr(0xff0d), chr(0xfe63)])).replace('+', rng.choice([chr(0xff0b), chr(0xfe62)]))
    if rng.random() < 0.15:
        out = out.replace('.', rng.choice([chr(0xff0e), chr(0x66b), chr(0x3002)]))
    return out


def near_exponent(rng):
    mant = rng.choice(['', '', '-', '+']) + near_plain(rng, small=rng.random() < 0.85)
    mark = rng.choice(NEAR_EXP_MARKS)
    k = rng.choice(NEAR_EXPONENTS)
    ks = str(k)
    r = rng.random()
    if r < 0.15:
        ks = ''.join(SUPERSCRIPT[c] for c in ks)
    elif r < 0.25:
        ks = to_script(ks, rng.choice(SCRIPT_ZEROS))
    elif r < 0.33:
        ks = '0' * rng.choice([1, 5, 400]) + ks
    elif r < 0.40 and len(ks) > 1:
        ks = '_'.join(ks)
    elif r < 0.46:
        ks = ks + rng.choice(['.0', '.5', '.', 'e1', '-1', '+1', ' ', 'f', ')'])
    esign = rng.choice(['', '', '+', '-', '-']) if mark[-1] not in '+-' else ''
    return mant + mark + esign + ks


def near_radix_prefix(rng):
    """-> (text, radixes to try): other tools' ways of writing hex / octal / binary integers and hex floats."""
    base = rng.choice([16, 16, 16, 8, 2, 2, 10, 36])
    n = rng.choice([1, 2, 3, 4, 8, 16, 17, 64, 65, 256, 1000]) if rng.random() < 0.25 else rng.choice([1, 2, 3, 4, 8])
    alphabet = '0123456789abcdefghijklmnopqrstuvwxyz'[:base]
    h = ''.join(rng.choice(alphabet) for _ in range(n))
    if rng.random() < 0.3:
        h = h.upper()
    if rng.random() < 0.15 and n > 1:
        h = group_digits(rng, h, rng.choice(['_', '_', ' ', ',', "'", '__']), rng.choice(['myriad4', 'every', 'left3', 'lead', 'trail']))
    letter = {16: 'x', 8: 'o', 2: 'b', 10: 'd', 36: 'z'}[base]
    forms = ['0' + letter + h, '0' + letter.upper() + h, '0' + letter + '_' + h, '0' + letter + '__' + h, '0' + letter + ' ' + h,
             '0' + letter + '-' + h, '0' + letter + '+' + h, '-0' + letter + h, '+0' + letter + h, '- 0' + letter + h, '0' + letter,
             '0 ' + letter + h, '00' + letter + h, '0' + letter + '0' + letter + h, letter + h, h + letter, h + letter.upper(), '#' + h, '&H' + h,
             '&h' + h, '&O' + h, '&B' + h, '$' + h, '%' + h, h + 'h', h + 'H', str(base) + '#' + h, str(base) + 'r' + h, str(base) + '_' + h,
             '\\x' + h, "x'" + h + "'", "X'" + h + "'", 'U+' + h, '0' + h, '0' + letter + h + '.8p1', '0' + letter + h + 'p-2', '0' + letter + h + '.',
             '0' + letter + '.' + h, '0' + letter + h + 'e5', '0' + letter + h + 'L', '0' + letter + h + 'n', '0' + letter + h + 'u',
             '0' + chr(0xff58) + h, to_script('0', rng.choice(SCRIPT_ZEROS)) + letter + h, '0' + letter + to_script(h, rng.choice(SCRIPT_ZEROS)),
             '0e' + h, '0e0', '0x1p0', '0x1.8p3', '0X.8P1', '0x1p', '0x1p+1024', '-0x1p-1080', '0x1.fffffffffffffp1023', '0x10000000000000p972',
             '0b1e5', '0B1E5', '0o17', '017', '0o08', '0b102', '0xg', '0x1g', '1e', '0q7', '0t7', '0y1', '0n9', '0d9', '0z', '0_x1', '0_b1', '0_o7']
    text = rng.choice(forms)
    radixes = [base if base != 36 else 36, rng.choice([None, 10]), rng.choice([16, 8, 2, 36, 25, 24, 34, 33, 12, 11, 35, 0, rng.randint(2, 36)])]
    return text, radixes


def near_fraction(rng):
    a = near_plain(rng, small=True)
    b = near_plain(rng, small=True)
    bar = rng.choice(['/', '/', '/', ' / ', chr(0x2044), chr(0x2215), '\xf7', ':', '//', '\\', ' of ', '|', '/-', '/+'])
    r = rng.random()
    if r < 0.55:
        out = a + bar + b
    elif r < 0.7:
        out = near_digits(rng, rng.choice([1, 2]), 'random') + rng.choice([' ', '-', '+', '_', '']) + a + bar + b       # mixed number
    elif r < 0.85:
        out = rng.choice(['', '1', '12', '1 ', '0']) + rng.choice([chr(c) for c in (0xbd, 0xbc, 0xbe, 0x2153, 0x2154, 0x215b, 0x2189, 0x215f)])
    else:
        out = a + bar + b + bar + near_plain(rng, small=True)
    return rng.choice(['', '', '', '-', '+']) + out


def random_case(rng, word):
    return ''.join(c.upper() if rng.random() < 0.5 else c.lower() for c in word)


def near_nonfinite(rng):
    word = rng.choice(NONFINITE_WORDS)
    r = rng.random()
    if r < 0.5:
        word = random_case(rng, word)
    elif r < 0.6:
        word = word.upper()
    elif r < 0.7:
        word = word.capitalize()
    sign = rng.choice(['', '', '', '+', '-', '+', '-', '--', '+-', '- ', chr(0x2212), '(', '-_', '0', '1', '1e', '1e+', '0x', '.', '0.', '1_', '+.'])
    tail = rng.choice(['', '', '', '', '', '', ' ', ')', '.', '_', '0', 'e0', 'f', '%', '\x00', '()', chr(0x200b)])
    return sign + word + tail


def near_long(rng):
    """Very long digit runs (309 .. 5000 digits), with and without grouping, and long texts that denote small numbers."""
    n = rng.choice([308, 309, 309, 310, 311, 400, 400, 1000, 4299, 4300, 4301, 5000])
    d = near_digits(rng, n)
    r = rng.random()
    sign = rng.choice(['', '', '-', '+'])
    if r < 0.2:
        body = d
    elif r < 0.5:
        body = group_digits(rng, d, rng.choice(['_', '_', ',', ',', ' ', '.', "'", chr(0x2009)]), rng.choice(['correct3', 'correct3', 'myriad4', 'left3', 'every']))
    elif r < 0.6:
        body = d + rng.choice(['.', '.5', '.0', 'e0', 'e-1', 'e1', 'E+0', ',5', '.5e1'])
    elif r < 0.7:
        body = d + 'e-' + str(rng.choice([n - 1, n, n - 308, n - 309, n - 310, n + 323, n + 324, 1]))      # long but of moderate magnitude
    elif r < 0.8:
        body = '0.' + '0' * rng.choice([n, n - 1, 323, 324]) + near_digits(rng, rng.choice([1, 3, 17]), 'random') + rng.choice(['', '', 'e%d' % n, 'e%d' % (n + 308), 'e%d' % (n + 310)])
    elif r < 0.87:
        body = '0' * n + rng.choice(['', '.', '1', '1.5', 'e5', '_1', ',1']) if rng.random() < 0.5 else '0' * n + d[:rng.choice([1, 308, 309])]
    elif r < 0.94:
        body = to_script(d, rng.choice(SCRIPT_ZEROS))
    else:
        body = group_digits(rng, d, '_', 'correct3') + rng.choice(['.5', '_', '__0', 'e-5', ',0'])
    return sign + body


NEAR_FAMILIES = [('grouped', near_grouped, 24), ('decimal-mark', near_decimal_mark, 10), ('affix', near_affix, 12), ('sign', near_sign, 10),
                 ('script', near_script, 10), ('exponent', near_exponent, 12), ('radix-prefix', near_radix_prefix, 10), ('fraction', near_fraction, 5),
                 ('nonfinite', near_nonfinite, 10), ('long', near_long, 2)]


def near_directed():
    """Deterministic part, run on every seed: every separator x every size (correct grouping, with and without a fraction), every
    case spelling of inf / nan / infinity with signs, the long runs around 309 digits."""
    rng = random.Random(13)
    out = []
    for sep in GROUP_SEPS:
        for n in NEAR_SIZES:
            if n > 1000 and sep not in (',', '_', '.', ' ', chr(0x2009)):
                continue
            for style in ('one-zeros', 'nines'):
                g = group_digits(rng, near_digits(rng, n, style), sep, 'correct3')
                out.append(('grouped', g, [None, 16]))
                out.append(('grouped', '-' + g + '.', [10]))
                out.append(('grouped', g + '.5', [36]))
            out.append(('grouped', ' ' + group_digits(rng, near_digits(rng, n, 'random'), sep, 'left3') + ' ', [10]))
    for word in ('inf', 'nan', 'infinity'):
        for mask in range(1 << len(word)):
            w = ''.join(c.upper() if mask >> i & 1 else c for i, c in enumerate(word))
            for sign in ('', '+', '-'):
                out.append(('nonfinite', sign + w, [rng.choice([None, 10, 16, 24, 35, 36])]))
    for n in (308, 309, 310, 400, 1000, 5000):
        for lead in ('1', '9', '17976931348623157', '17976931348623158', '17976931348623159', '2'):
            d = lead + '0' * (n - len(lead))
            out.append(('long', d, [None, 16]))
            out.append(('long', '-' + d + '.0', [10]))
            out.append(('long', d + 'e-%d' % (n - 1), [10]))
            out.append(('long', '0.' + '0' * (n - 1) + lead + 'e%d' % (n + 300), [10]))
            out.append(('long', to_script(d, 0xff10), [10, 36]))
    return out


def near_number_cases(rng, n):
    """-> [(fn, text, radix, origin)]: every text goes to numberParseFloat AND numberParseInt (radix: default, 10, 16, 36, 2, 8, random)."""
    rows = near_directed()
    weights = [w for _, _, w in NEAR_FAMILIES]
    for _ in range(n):
        name, gen, _w = NEAR_FAMILIES[_weighted(rng, weights)]
        got = gen(rng)
        text, radixes = got if isinstance(got, tuple) else (got, [rng.choice(NEAR_RADIXES + [rng.randint(2, 36)])])
        r = rng.random()
        if r < 0.12 and name not in ('long',):               # notations combine: a second layer of decoration
            text = rng.choice([lambda t: rng.choice(NEAR_PREFIXES) + t, lambda t: t + rng.choice(NEAR_SUFFIXES), lambda t: '(' + t + ')',
                               lambda t: rng.choice(NEAR_SIGNS_PRE) + t, lambda t: to_script(t, rng.choice(SCRIPT_ZEROS)),
                               lambda t: t + rng.choice(['-', '+'])])(text)
        if rng.random() < 0.25:
            text = rng.choice(WS) + text + rng.choice(WS)
        rows.append((name, text, radixes))
    cases = []
    for name, text, radixes in rows:
        cases.append(('numberParseFloat', text, None, 'near:' + name))
        for radix in radixes:
            cases.append(('numberParseInt', text, radix, 'near:' + name))
    return cases


def load_corpus():
    path = os.path.join(fw.VERIF, 'harness', 'corpus', 'C13.jsonl')
    rows = []
    if os.path.exists(path):
        with open(path, encoding='utf-8') as fh:
            for ln in fh:
                ln = ln.strip()
                if ln and not ln.startswith('#'):
                    rows.append(json.loads(ln))
    return rows


def radix_wire(radix):
    fr = Fraction(10 if radix is None else radix)
    return [fr.numerator, fr.denominator]


# ---------------------------------------------------------------------------------------------------------------------
# streams
# ---------------------------------------------------------------------------------------------------------------------

def tables_obligation(ctx):
    """The character tables the model hard-codes are the ones of the running interpreter."""
    tab = ctx.driver.batch([{'op': 'tables'}])[0]
    zeros = [c for c in range(0x80, 0x110000) if unicodedata.decimal(chr(c), None) == 0]
    blocks = all(unicodedata.decimal(chr(z + i), None) == i for z in zeros for i in range(10))
    n_dec = sum(1 for c in range(0x80, 0x110000) if unicodedata.decimal(chr(c), None) is not None)
    ctx.obligation('table:unicode-decimal-digits', tab.get('uniZeros') == zeros and blocks and n_dec == 10 * len(zeros),
                   f'model {len(tab.get("uniZeros", []))} blocks, unicodedata {unicodedata.unidata_version} has {len(zeros)}')
    spaces = [c for c in range(0x110000) if chr(c).isspace()]
    ctx.obligation('table:unicode-spaces', tab.get('reSpaces') == spaces, f'model {tab.get("reSpaces")} vs str.isspace {spaces}')
    ctx.obligation('table:ascii', tab.get('pySpaces') == [9, 10, 11, 12, 13, 32] and tab.get('digits') == list(range(48, 58)), '')
    ctx.obligation('table:overflow-bound', tab.get('overflowBound') == 2 ** 1024 - 2 ** 970
                   and float(2 ** 1024 - 2 ** 970 - 1) == sys.float_info.max and safe(float, str(2 ** 1024 - 2 ** 970)) == math.inf, '')


def stream_numtext(ctx):
    st = ctx.stream('numtext', 'finite doubles: corpus + directed (powers of ten 1e-320..1e308 and neighbours, around 2^53/1e15/1e16/1e21/1e22, '
                               'subnormals, +-0, dyadics) + random (55% uniform 64-bit patterns, integral around the 1e16 switch, short '
                               'decimals, subnormals, dyadics); per x: value_string vs model strip(repr x), IsRepr(repr x), decVal, '
                               'numberParseFloat, literal; non-trivial = every finite x (distinct bit patterns counted)')
    rng = ctx.rng('numtext')
    xs = [float.fromhex(r['double']) for r in load_corpus() if 'double' in r]
    xs += directed_doubles()
    xs += random_doubles(rng, ctx.scale(12000, 215000))
    script_every = ctx.scale(1, 1)
    reqs = []
    for x in xs:
        r = repr(x)
        reqs.append({'op': 'isRepr', 'text': r})
        reqs.append({'op': 'valueString', 'repr': r})
    resps = ctx.driver.batch(reqs)
    reqs2 = []
    texts = []
    for i, x in enumerate(xs):
        mvs = resps[2 * i + 1]['text']
        texts.append(mvs)
        reqs2.append({'op': 'decVal', 'text': mvs})
        reqs2.append({'op': 'parseFloat', 'text': mvs})
        reqs2.append({'op': 'literal', 'text': mvs})
    resps2 = ctx.driver.batch(reqs2)
    for i, x in enumerate(xs):
        r = repr(x)
        mvs = texts[i]
        form = 'sci' if 'e' in r else ('fixed-integral' if r.endswith('.0') else 'fixed-fraction')
        st.case(x.hex(), nontrivial=True, tags=[form, 'neg' if math.copysign(1, x) < 0 else 'nonneg',
                                                'subnormal' if x != 0 and abs(x) < 2.2250738585072014e-308 else 'normal'])
        vs, fails = check_double(x, with_script=(i % script_every == 0))
        for oracle, want, got in fails:
            ctx.witness(oracle, {'double': x.hex(), 'repr': r}, want, got)
        # model vs implementation
        ctx.compare('numtext:value_string', {'double': x.hex(), 'repr': r}, vs, mvs)
        # assumption A1 (grammar) sampled
        ctx.compare('numtext:repr-grammar(A1)', r, True, resps[2 * i]['ok'])
        # the model's value of the text rounds to x (A1 round trip + A2), parser models agree with the implementation
        dec, pf, lit = resps2[3 * i], resps2[3 * i + 1], resps2[3 * i + 2]
        ctx.compare('numtext:decVal-rounds-to-x', mvs, x.hex() if x != 0 else 0.0.hex(),
                    fhex(model_float(dec.get('value'))) if 'value' in dec else dec)
        back = call_lib('numberParseFloat', [mvs])
        ctx.compare('numtext:numberParseFloat', mvs, canon_num(back), canon_num(model_float(pf.get('value'))) if 'value' in pf else pf)
        if math.copysign(1, x) > 0:
            try:
                expr, rest = fw.impl()['parser']._parse_unary_expression(mvs)  # pylint: disable=protected-access
                il = {'consumed': len(mvs) - len(rest), 'value': canon_num(expr.get('number'))}
            except Exception as exc:  # pylint: disable=broad-except
                il = {'error': type(exc).__name__}
            mm = lit.get('match')
            ml = {'consumed': mm['consumed'], 'value': canon_num(model_float(mm['value']))} if isinstance(mm, dict) else lit
            ctx.compare('numtext:literal', mvs, il, ml)
            if isinstance(mm, dict) and mm['consumed'] != len(mvs):
                ctx.disagree('numtext:literal-consumes-all', mvs, len(mvs), mm['consumed'])

    # Python int carriers
    ints = int_cases(rng, ctx.scale(600, 6000))
    iresps = ctx.driver.batch([{'op': 'valueString', 'int': n} for n in ints])
    maxd = sys.get_int_max_str_digits()
    iresps2 = ctx.driver.batch([{'op': 'parseInt', 'text': r['text'], 'radix': [10, 1], 'maxDigits': maxd} for r in iresps])
    for n, resp, resp2 in zip(ints, iresps, iresps2):
        st.case('int:' + str(n)[:400], nontrivial=True, tags=['int-carrier', 'int-digits-%d' % min(400, 10 * (len(str(abs(n))) // 10))])
        vs, fails = check_int(n)
        for oracle, want, got in fails:
            ctx.witness(oracle, {'int': str(n)}, want, got)
        ctx.compare('numtext:value_string(int)', str(n)[:200], vs, resp['text'])
        ctx.compare('numtext:parseInt(str(int))', str(n)[:200], n, model_int(resp2))


def parser_cases(ctx):
    rng = ctx.rng('parsers')
    cases = []
    for row in load_corpus():
        if 'text' in row:
            if row.get('fn', 'both') in ('float', 'both'):
                cases.append(('numberParseFloat', row['text'], None, 'corpus'))
            if row.get('fn', 'both') in ('int', 'both'):
                for radix in row.get('radix', [None, 10, 16, 2, 8, 36]):
                    cases.append(('numberParseInt', row['text'], radix, 'corpus'))
    maxd = sys.get_int_max_str_digits()
    for nd in (maxd - 1, maxd, maxd + 1, maxd + 700):
        cases.append(('numberParseInt', '9' * nd, None, 'digit-limit'))
        cases.append(('numberParseInt', '1' * nd, 16, 'digit-limit'))
        cases.append(('numberParseInt', ' -' + '0' * nd, 10, 'digit-limit'))
        cases.append(('numberParseInt', '1_' * (nd - 1) + '1', 9, 'digit-limit'))
    cases += near_number_cases(ctx.rng('parsers-near'), ctx.scale(4000, 60000))
    n = ctx.scale(9000, 160000)
    for _ in range(n):
        if rng.random() < 0.55:
            cases.append(('numberParseFloat', gen_float_text(rng), None, 'gen'))
        else:
            text, radix = gen_int_case(rng)
            cases.append(('numberParseInt', text, radix, 'gen'))
    # cross: float-looking text to the int parser and vice versa, random words in radix 36
    for _ in range(n // 10):
        cases.append(('numberParseInt', gen_float_text(rng), rng.choice([None, 10, 16, 36]), 'cross'))
        cases.append(('numberParseFloat', gen_int_case(rng)[0], None, 'cross'))
        word = ''.join(rng.choice('abcdefghijklmnopqrstuvwxyzABCXYZ0189_ ') for _ in range(rng.randint(1, 8)))
        cases.append(('numberParseInt', word, rng.choice([36, 36, 35, 16, 11]), 'words'))
    return cases


def stream_parsers(ctx):
    st = ctx.stream('parsers', 'numberParseFloat / numberParseInt on corpus near-misses + grammar-directed number texts (whitespace incl. Unicode, '
                               'sign, digit groups with underscores, Unicode digits, fraction/exponent forms, inf/nan words, radix prefixes, '
                               'radix 2..36 and invalid radix arguments) with 45% mutated by random edits; NEAR-NUMBER texts in other locales\' '
                               'and tools\' notations (origin near:*; each text to numberParseFloat and to numberParseInt in the default radix, '
                               '10, 16, 36, 2, 8 or a random one): digit grouping with , . _ space thin-space nbsp apostrophe etc. correctly (3, Indian, '
                               'myriads) and incorrectly grouped over the size axis 1..22, 64, 65, 100..129, 256, 308, 309, 310, 400, 1000, 5000 digits; '
                               'decimal comma and other marks; currency / percent / unit prefixes and suffixes; parentheses, trailing, doubled '
                               'and other-script signs; fullwidth and other-script digits, digit-like non-decimals; exponent spellings (x10^, D, '
                               'superscripts, p) with exponents up to 5000; hex / octal / binary notations of other tools and hex floats; '
                               'fractions; every case spelling of inf / nan / infinity with signs and ~90 look-alikes; long runs that denote '
                               'moderate numbers. Oracle: result is null or exactly the finite number the WHOLE text denotes in the float() / '
                               'int(, radix) grammar (reference written from the Python docs), never non-finite. non-trivial = text has a '
                               'non-blank character; results compared exactly (rationals)')
    cases = parser_cases(ctx)
    maxd = sys.get_int_max_str_digits()
    reqs = []
    too_long = set()     # the wire carries exact [num, den] as JSON integers: json cannot read back more than 4300 digits
    for i, (fn, text, radix, _) in enumerate(cases):
        if fn == 'numberParseFloat' and len(text) > 4000 and ref_float(text) is not None:
            too_long.add(i)
            reqs.append({'op': 'parseFloat', 'text': ''})
        elif fn == 'numberParseFloat':
            reqs.append({'op': 'parseFloat', 'text': text})
        else:
            reqs.append({'op': 'parseInt', 'text': text, 'radix': radix_wire(radix), 'maxDigits': maxd})
    resps = ctx.driver.batch(reqs)
    skipped = 0
    for i, ((fn, text, radix, origin), resp) in enumerate(zip(cases, resps)):
        case = {'fn': fn, 'text': text, 'radix': radix}
        res, fails = check_parse(fn, text, radix)
        for oracle, want, got in fails:
            ctx.witness(oracle, case, want, got)
        st.case([fn, text[:300], len(text), radix], nontrivial=bool(text.strip()),
                tags=[fn, origin, fn + (':null' if res is None else ':number'),
                      'non-ascii' if any(ord(c) > 127 for c in text) else 'ascii', 'underscore' if '_' in text else 'plain',
                      'len>308' if len(text) > 308 else 'len<=308'])
        if 'skip' in resp or i in too_long:
            skipped += 1
            continue
        if fn == 'numberParseFloat':
            model = canon_num(model_float(resp['value'])) if 'value' in resp else resp
        else:
            model = canon_num(model_int(resp))
        ctx.compare('parsers:' + fn, case if len(text) < 400 else {'fn': fn, 'text': text[:100] + '...', 'len': len(text), 'radix': radix},
                    canon_num(res), model)
    ctx.notes.append(f'parsers: {skipped} case(s) not compared with the model (driver guard: exponent beyond 2200; {len(too_long)} finite '
                     'numberParseFloat texts of more than 4000 characters: exact rational too long for the wire); the oracles ran on them')

    # non-string / missing arguments: argument validation gives null
    for fn in ('numberParseFloat', 'numberParseInt'):
        for args in ([], [None], [12], [12.5], [True], [['1']], [{'a': 1}], ['1', '10'], ['1', None], ['1', True], ['1', 10, 3]):
            want = None         # (an explicit null radix is not the default: the argument is not nullable)
            got = call_lib(fn, args)
            st.case([fn, 'args', repr(args)], nontrivial=True, tags=['argument-validation'])
            if got != want or (want is not None and type(got) is not int):  # pylint: disable=unidiomatic-typecheck
                ctx.witness('argument validation: non-text gives null', {'fn': fn, 'args': args}, want, canon_num(got))


def streams(ctx):
    tables_obligation(ctx)
    stream_numtext(ctx)
    stream_parsers(ctx)


# ---------------------------------------------------------------------------------------------------------------------
# search / replay
# ---------------------------------------------------------------------------------------------------------------------

def search(ctx):
    """Directed search on the implementation only (oracles), biased to the places a changed clean-up regex / parser shows."""
    rng = ctx.rng('search')
    xs = directed_doubles() + random_doubles(rng, ctx.scale(20000, 200000))
    for x in xs:
        _, fails = check_double(x, with_script=False)
        for oracle, want, got in fails:
            ctx.witness(oracle, {'double': x.hex(), 'repr': repr(x)}, want, got)
        if ctx.witnesses:
            return
    for n in int_cases(rng, 2000):
        _, fails = check_int(n)
        for oracle, want, got in fails:
            ctx.witness(oracle, {'int': str(n)}, want, got)
        if ctx.witnesses:
            return
    for fn, text, radix, _ in parser_cases(ctx):
        _, fails = check_parse(fn, text, radix)
        for oracle, want, got in fails:
            ctx.witness(oracle, {'fn': fn, 'text': text, 'radix': radix}, want, got)
        if ctx.witnesses:
            return


def replay(witness):
    inp = witness['input']
    if 'double' in inp:
        _, fails = check_double(float.fromhex(inp['double']))
    elif 'int' in inp:
        _, fails = check_int(int(inp['int']))
    elif 'args' in inp:
        got = call_lib(inp['fn'], inp['args'])
        return canon_num(got) != witness['expected'] and got != witness['expected']
    else:
        _, fails = check_parse(inp['fn'], inp['text'], inp.get('radix'))
    return bool(fails)


# extension: the literal scanner of the expression parser is the C13 literal model; script-level round trip (DESIGN 13.9)
from props import c13x  # noqa: E402  pylint: disable=wrong-import-position
fw.attach_extension(globals(), c13x)
