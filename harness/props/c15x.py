"""C15 extension stream: the extended library model LibMore (BareModel/LibMore.lean: arrayJoin / stringNew over every element type through
the C14 JSON model, arraySort without a compare function; everything else falls back to Lib; theorems in BareProofs/C15More*.lean) run by
`drv_c15x` (op more_history) against the real library on random histories over aliased (sometimes cyclic) containers.  Float repr and zoned
datetime text are a text-oracle table sent with each request (numText / dtText = the REAL value_string of the numbers / datetimes that occur).
Imported by harness/props/C15.py."""

import datetime
import fractions
import re

import fw

THEOREMS = [
    'C15More.sig_table_more', 'C15More.fail_table_more', 'C15More.effMore_conservative', 'C15More.libMore_conservative', 'C15More.history_conservative',
    'C15More.effMore_store', 'C15More.more_frame', 'C15More.more_frame_kind', 'C15More.more_length', 'C15More.more_fresh',
    'C15More.arraySort_returns_argument', 'C15More.more_fail_unchanged', 'C15More.more_invalid_fails', 'C15More.lib_spec_more_eq',
    'C15More.libMore_eq_specLibMore', 'C15More.history_refines_more', 'C15More.history_frame_more', 'C15More.validate_pats', 'C15More.docSigAll_regular',
    'C15More.specMore_unmodelled_iff', 'C15More.unmodelled_iff', 'C15More.libMore_unmodelled_iff', 'C15More.lib_spec_more', 'C15More.still_smaller',
    'C15More.still_strictly_smaller', 'C15More.fail_not_still', 'C15More.vcmp_reify', 'C15More.valueCompare_tree', 'C15More.comparable_of_readable',
    'C15More.sortV_tree', 'C15More.sortV_contract', 'C15More.arraySort_contract', 'C15More.toJ_wf', 'C15More.json_text_spec', 'C15More.ranked_dense',
    'C15More.readable_of_ranked', 'C15More.arraySort_modelled_of_ranked', 'C15More.toJ_not_cyc_of_ranked', 'C15More.validate_refs', 'C15More.still_core',
]
LEAN_TARGETS = ['BareProofs.C15More', 'BareProofs.C15MoreStill', 'BareProofs.C15MoreSort', 'BareProofs.C15MoreText', 'BareProofs.C15MoreCore']
EXTRA_TARGETS = ['drv_c15x']

EPOCH = datetime.datetime(1970, 1, 1)
RES = [re.compile('a'), re.compile('b+')]
PLAIN = 10 ** 16


def fns():
    lib = fw.impl()['library'].SCRIPT_FUNCTIONS
    return [lib['stringLength'], lib['arrayNew']]


def VS():
    return fw.impl()['value'].value_string


def call_impl(name, args):
    """the call wrapper of runtime.evaluate_expression"""
    lib = fw.impl()['library'].SCRIPT_FUNCTIONS
    try:
        return lib[name](args, {})
    except fw.impl()['value'].ValueArgsError as e:
        return e.return_value
    except Exception:  # pylint: disable=broad-exception-caught
        return None


def is_num(x):
    return isinstance(x, (int, float)) and not isinstance(x, bool)


def dt_ms(d):
    return (d - EPOCH) // datetime.timedelta(milliseconds=1)


class Enc:
    """Python object graph <-> model heap (references in allocation order)"""
    def __init__(self):
        self.objs = []          # ref -> container
        self.ref = {}           # id -> ref
        self.nums = {}          # Fraction -> text
        self.dts = {}           # ms -> text

    def val(self, x):
        if x is None or isinstance(x, bool):
            return x
        if is_num(x):
            q = fractions.Fraction(x)
            if not (q.denominator == 1 and abs(q.numerator) < PLAIN):
                self.nums[q] = VS()(x)
            return {'n': [q.numerator, q.denominator]}
        if isinstance(x, str):
            return {'s': x}
        if isinstance(x, datetime.datetime):
            self.dts[dt_ms(x)] = VS()(x)
            return {'dt': dt_ms(x)}
        if isinstance(x, list):
            return {'a': self.alloc(x)}
        if isinstance(x, dict):
            return {'o': self.alloc(x)}
        if callable(x):
            return {'f': fns().index(x)}
        if isinstance(x, type(RES[0])):
            return {'re': RES.index(x)}
        raise ValueError(x)

    def alloc(self, c):
        if id(c) not in self.ref:
            self.ref[id(c)] = len(self.objs)
            self.objs.append(c)
            # children are allocated when the cell is encoded
        return self.ref[id(c)]

    def cell(self, c):
        if isinstance(c, list):
            return {'arr': [self.val(x) for x in c]}
        return {'obj': [[k, self.val(v)] for k, v in c.items()]}

    def heap(self):
        out, i = [], 0
        while i < len(self.objs):          # encoding may allocate more
            out.append(self.cell(self.objs[i]))
            i += 1
        return out


def gen_scalar(rng):
    k = rng.randrange(12)
    if k == 0:
        return None
    if k == 1:
        return rng.random() < 0.5
    if k in (2, 3):
        return float(rng.randrange(-3, 6))
    if k == 4:
        return rng.choice([0.5, -2.25, 0.1, 1 / 3, 1.5e-300, 1e-7, -1e-5, 123456.789, 2.0 ** 53, 1e15])   # integral floats >= 1e16 print in exponent form: a known deviation of the unextended Lib text (C13 owns number text)
    if k == 5:
        return rng.randrange(0, 4)                      # an int (as stringLength returns)
    if k in (6, 7):
        return rng.choice(['', 'a', 'b', 'ab', 'é', 'x"y\\z', '\n', '\U0001F600', 'A', '1.0', ' '])
    if k == 8:
        return datetime.datetime(2024, rng.randrange(1, 13), rng.randrange(1, 28), rng.randrange(24), rng.randrange(60),
                                 rng.randrange(60), rng.choice([0, 0, 6000, 120000, 999000]))
    if k == 9:
        return rng.choice(fns())
    if k == 10:
        return rng.choice(RES)
    return rng.choice(['k', 'z'])


def gen_pool(rng):
    """a few containers with aliasing (and sometimes a cycle)"""
    pool = []
    for _ in range(rng.randrange(2, 6)):
        def el():
            if pool and rng.random() < 0.3:
                return rng.choice(pool)
            return gen_scalar(rng)
        if rng.random() < 0.65:
            pool.append([el() for _ in range(rng.randrange(0, 6))])
        else:
            pool.append({rng.choice(['a', 'b', 'c', 'é', 'B', 'k']): el() for _ in range(rng.randrange(0, 4))})
    if rng.random() < 0.12:
        c = rng.choice(pool)
        if isinstance(c, list):
            c.append(rng.choice(pool))
        else:
            c['cyc'] = rng.choice(pool)
    return pool


NEW = ['arrayJoin', 'stringNew', 'arraySort']
OTHER = ['arrayPush', 'arraySet', 'objectSet', 'arrayCopy', 'objectCopy', 'arrayGet', 'objectGet', 'arrayIndexOf', 'arrayNew',
         'objectKeys', 'arrayPop', 'arrayExtend', 'objectAssign', 'arrayLength', 'stringLower']


def gen_call(rng, env):
    name = rng.choice(NEW) if rng.random() < 0.6 else rng.choice(OTHER)
    def var(pred):
        c = [i for i, v in enumerate(env) if pred(v)]
        return ('var', rng.choice(c)) if c else ('lit', None)
    def anyarg():
        return ('var', rng.randrange(len(env))) if rng.random() < 0.6 else ('lit', gen_scalar(rng))
    arr = lambda: var(lambda v: isinstance(v, list))
    obj = lambda: var(lambda v: isinstance(v, dict))
    if rng.random() < 0.12:                               # ill-typed / wrong arity
        args = [anyarg() for _ in range(rng.randrange(0, 4))]
    elif name == 'arrayJoin':
        args = [arr(), ('lit', rng.choice([',', '', ', ', 'é']))]
    elif name == 'stringNew':
        args = [anyarg()]
    elif name == 'arraySort':
        args = [arr()] + rng.choice([[], [('lit', None)], [('lit', fns()[0])]])
    elif name in ('arrayPush', 'arrayNew'):
        args = ([arr()] if name == 'arrayPush' else []) + [anyarg() for _ in range(rng.randrange(0, 3))]
    elif name == 'arraySet':
        args = [arr(), ('lit', float(rng.randrange(0, 4))), anyarg()]
    elif name == 'objectSet':
        args = [obj(), ('lit', rng.choice(['a', 'b', 'n'])), anyarg()]
    elif name in ('arrayCopy', 'arrayPop', 'arrayLength'):
        args = [arr()]
    elif name in ('objectCopy', 'objectKeys'):
        args = [obj()]
    elif name == 'arrayGet':
        args = [arr(), ('lit', float(rng.randrange(0, 4)))]
    elif name == 'objectGet':
        args = [obj(), ('lit', rng.choice(['a', 'b', 'n']))]
    elif name == 'arrayIndexOf':
        args = [arr(), anyarg()]
    elif name == 'arrayExtend':
        args = [arr(), arr()]
    elif name == 'objectAssign':
        args = [obj(), obj()]
    else:
        args = [('lit', rng.choice(['ABC', 'É', 'q']))]
    return name, args


def run_case(rng):
    pool = gen_pool(rng)
    env = list(pool) + [gen_scalar(rng) for _ in range(2)]
    enc = Enc()
    env0 = [enc.val(v) for v in env]
    heap0 = enc.heap()
    calls, impl_steps = [], []
    for _ in range(rng.randrange(1, 9)):
        name, args = gen_call(rng, env)
        jargs, pargs = [], []
        for kind, a in args:
            if kind == 'var':
                jargs.append({'var': a}); pargs.append(env[a])
            else:
                jargs.append(enc.val(a)); pargs.append(a)
        res = call_impl(name, pargs)
        env.append(res)
        jres = enc.val(res)
        heap = enc.heap()
        hint = jres
        calls.append({'fn': name, 'args': jargs, 'hint': hint})
        impl_steps.append({'v': jres, 'heap': heap, 'name': name})
    req = {'op': 'more_history', 'heap': heap0, 'env': env0, 'calls': calls,
           'numText': [[q.numerator, q.denominator, s] for q, s in enc.nums.items()],
           'dtText': [[ms, s] for ms, s in enc.dts.items()]}
    return req, impl_steps




def streams(ctx):
    drv = fw.Driver('drv_c15x')
    rng = ctx.rng('more-history')
    st = ctx.stream('more-history', 'LibMore (drv_c15x more_history): random histories of 1-8 library calls (60% arrayJoin / stringNew / arraySort, the rest '
                                    'mutators and readers) over a pool of aliased containers (12% cyclic), all scalar types incl. non-integral floats, datetimes, '
                                    'functions, regexes, ill-typed and wrong-arity calls; result and WHOLE heap compared after every call; flags: StillUnmodelled '
                                    'iff unmodelled, spec layer = mirror, conservative over Lib; non-trivial = the call is modelled by LibMore but not by Lib')
    cases = [run_case(rng) for _ in range(ctx.scale(3000, 40000))]
    outs = drv.batch([r for r, _ in cases])
    for (req, steps), out in zip(cases, outs):
        heap = list(req['heap'])
        if 'steps' not in out:
            ctx.compare('more-history', {'request': fw.shorten(req, 3000)}, 'steps', out)
            continue
        for k, (stp, mo) in enumerate(zip(steps, out['steps'])):
            for i, c in mo['d']:
                if i < len(heap):
                    heap[i] = c
                else:
                    heap.append(c)
            case = {'call': req['calls'][k], 'step': k, 'request': fw.shorten(req, 3000)}
            st.case([stp['name'], req['calls'][k]['args'], k, len(heap)], nontrivial=mo['old'] == 'unmodelled' and mo['r'] != 'unmodelled',
                    tags=['fn:' + stp['name'], 'r:' + mo['r'], 'old:' + mo['old']])
            ctx.compare('more-history', dict(case, what='flags: still iff unmodelled, spec agrees, conservative'),
                        [mo['r'] == 'unmodelled', True, True], [mo['still'], mo['spec'], mo['old'] == 'unmodelled' or mo['old'] == mo['r']])
            if mo['r'] == 'unmodelled':
                if stp['heap'] != heap:      # the implementation may have allocated / mutated: the rest of this history is out of step
                    break
                continue
            if not ctx.compare('more-history', dict(case, what='result and heap'), [stp['v'], stp['heap']], [mo['v'], heap]):
                break
    ctx.driver.requests += drv.requests
