"""Correspondence sketch for drv_c16x (ops isotext_*): generates cases, calls the real implementation, compares."""
import os, time, json, subprocess, random, datetime, sys
from bare_script import value as V

DRV = '/verif/lean/.lake/build/bin/drv_c16x'
def batch(reqs):
    p = subprocess.run([DRV], input=''.join(json.dumps(r, ensure_ascii=True) + '\n' for r in reqs), capture_output=True, text=True)
    out = [json.loads(l) for l in p.stdout.splitlines()]
    assert len(out) == len(reqs), (len(out), len(reqs), p.stderr)
    return out

def set_tz(off_min):           # fixed-offset process zone: POSIX TZ, sign reversed; |off| <= 1439
    a = abs(off_min)
    os.environ['TZ'] = 'XXX%s%02d:%02d' % ('-' if off_min >= 0 else '+', a // 60, a % 60)
    time.tzset()

def py_parse(text):
    """what the real code does up to (not including) .astimezone(): the two patterns, the constructor / fromisoformat"""
    rd = V._R_DATE.match(text); rdt = V._R_DATETIME.match(text)
    date = fields = raw = None
    if rd:
        y, mo, d = int(rd.group('year')), int(rd.group('month')), int(rd.group('day'))
        try:
            datetime.datetime(y, mo, d); date = [y, mo, d]
        except ValueError: pass
    if rdt:
        # independent reading of the matched text by position (the `raw` record)
        tail = text[19:]
        frac = ''
        if tail.startswith('.'):
            frac = tail[1:].split('Z')[0].split('+')[0].split('-')[0]; tail = tail[1 + len(frac):]
        off = 0 if tail == 'Z' else (-1 if tail[0] == '-' else 1) * (int(tail[1:3]) * 60 + int(tail[4:6]))
        raw = [int(text[0:4]), int(text[5:7]), int(text[8:10]), int(text[11:13]), int(text[14:16]), int(text[17:19]),
               int((frac + '000000')[:6]) if frac else 0, off]
        try:
            a = datetime.datetime.fromisoformat(V._R_DATETIME_ZULU.sub('+00:00', text))
            o = a.utcoffset()
            fields = [a.year, a.month, a.day, a.hour, a.minute, a.second, a.microsecond // 1000, (o.days * 86400 + o.seconds) // 60]
        except ValueError: pass
    return {'re_date': rd is not None, 're_datetime': rdt is not None, 'raw': raw, 'fields': fields, 'date': date}

def dt7(r): return None if r is None else [r.year, r.month, r.day, r.hour, r.minute, r.second, r.microsecond // 1000]

HOSTILE = ['2024-01-01T00:00:00.1234567+05:30','2024-01-01T00:00:00.123456+05:30','2024-01-01T00:00:00.1+05:30','2024-01-01T00:00:00.12Z','2024-01-01T00:00:00Z','2024-01-01T00:00:00z','2024-01-01t00:00:00Z',
'2024-01-01T00:00Z','12024-01-01T00:00:00Z','0999-01-01T00:00:00Z','0999-01-01','0000-01-01','0000-01-01T00:00:00Z','２０２４-01-01','2024-01-0١T00:00:00Z','2024-01-01\n','2024-01-01T00:00:00Z\n',
'2024-01-01T00:00:00+24:00','2024-01-01T00:00:00-00:00','2024-01-01T00:00:00+23:59','2024-01-01T00:00:00-23:59','2024-01-01T00:00:00+00:60','2024-01-01T00:00:00+99:00','2024-01-01T24:00:00Z','2024-01-01T23:60:00Z','2024-01-01T23:59:60Z',
'2024-02-30','2024-02-29','2023-02-29T00:00:00Z','2024-13-01','2024-00-01','2024-01-00',' 2024-01-01','2024-01-01 ','2024-01-01T00:00:00.Z','2024-01-01T00:00:00,5Z','2024-01-01T00:00:00+0530','2024-01-01T00:00:00+05','2024-01-01T00:00:00',
'2024-01-01T00:00:00.999999Z','0001-01-01T00:00:00+05:30','9999-12-31T23:59:59-01:00','9999-12-31T23:59:59Z','0001-01-02T00:00:00Z','2024-01-01T00:00:00+05:30:00','2024-1-1','','2024-01-01T00:00:00−05:30','2024-01-01T00:00:00.000+05:30','2024-01-01T00:00:00.5+05:30x', '2024-01-01T00:00:00Z\x00',
'2024-01-01T00:00:00.000000Z','2024-01-01T00:00:00.0009Z','2024-01-01T00:00:00.001999+05:30','2024-01-01T00:00:00ZZ','2024-01-01T00:00:00+5:30','2024-01-01T00:00:00 +05:30','2024-01-01T00:00:00.1234+05:3０','\n2024-01-01','2024-01-01T00:00:00+05:3','2024-01-01T00:00:00.12345６Z',
'2024-01-01T00:00:00+05:59','2024-01-01T00:00:00+05:5a','2024-01-01T00:00:00.1.2Z','2024-01-01T00:00:00..1Z','2024-01-01T00:00:00.-1Z','2100-02-29','2000-02-29','1900-02-29','2024-04-31T00:00:00Z','2024-01-01T00:00:00±05:30','2024-01-01T00:00:00.1234٣Z','२०२४-०१-०१']

def gen_texts(rng, n):
    def dg(k): return ''.join(rng.choice('0123456789') for _ in range(k))
    def pick(good, bad, p=0.9): return good() if rng.random() < p else rng.choice(bad)
    def mutate(t):
        r = rng.random()
        if r < 0.75 or not t: return t
        i = rng.randrange(len(t)); junk = '0:-+.TZtz \n٣５x'
        if r < 0.82: return t[:i] + t[i + 1:]
        if r < 0.88: return t[:i] + rng.choice(junk) + t[i:]
        if r < 0.95: return t[:i] + rng.choice(junk) + t[i + 1:]
        return t + rng.choice(['\n', ' ', 'Z', '0', '\r'])
    out = []
    for _ in range(n):
        y = pick(lambda: '%04d' % rng.choice([rng.randint(1, 9999), rng.randint(1, 999), 2024, 1, 9999]), ['0000'], 0.97)
        mo = pick(lambda: '%02d' % rng.randint(1, 12), ['00', '13', '99'], 0.95)
        d = pick(lambda: '%02d' % rng.randint(1, 28), ['29', '30', '31', '00', '32'], 0.85)
        if rng.random() < 0.2: out.append(mutate(f'{y}-{mo}-{d}')); continue
        h = pick(lambda: '%02d' % rng.randint(0, 23), ['24', '99'], 0.95)
        mi = pick(lambda: '%02d' % rng.randint(0, 59), ['60'], 0.95)
        s = pick(lambda: '%02d' % rng.randint(0, 59), ['60'], 0.95)
        fr = rng.choice(['', '', '.' + dg(rng.randint(1, 6)), '.' + dg(3), '.' + dg(rng.randint(0, 8))])
        z = rng.choice(['Z', '+00:00', '-00:00', '%s%02d:%02d' % (rng.choice('+-'), rng.randint(0, 23), rng.randint(0, 59)),
                        '%s%02d:%02d' % (rng.choice('+-'), rng.randint(0, 23), rng.randint(0, 59)),
                        '%s%02d:%02d' % (rng.choice('+-'), rng.randint(0, 30), rng.randint(0, 70))])
        out.append(mutate(f'{y}-{mo}-{d}T{h}:{mi}:{s}{fr}{z}'))
    return out

def main(seed, n):
    rng = random.Random(seed)
    texts = HOSTILE + gen_texts(rng, n)
    bad = 0
    # stream 1 `isotext-parse` (zone-free): language predicates, raw record, field record, date
    acc = 0
    for t, r in zip(texts, batch([{'op': 'isotext_parse', 'text': t} for t in texts])):
        e = py_parse(t)
        acc += bool(e['fields'] or e['date'])
        if r != e: bad += 1; print('PARSE MISMATCH', repr(t), e, r)
    print('parse cases', len(texts), 'accepted', acc)
    # stream 2 `isotext-zone`: value_parse_datetime itself, process zone = fixed offset
    for off in [0, 330, -300, 345, -210, 1439, -1439, 765]:
        set_tz(off)
        for t, r in zip(texts, batch([{'op': 'isotext_zone', 'text': t, 'off': off * 60} for t in texts])):
            e = dt7(V.value_parse_datetime(t))
            if r['dt'] != e or r['factored'] != e: bad += 1; print('ZONE MISMATCH', off, repr(t), e, r)
    # stream 3 `isotext-format`: value_string / date.isoformat, process zone = the record's offset; oracle: parse(format) = id
    k = 0
    for off in [0, 330, -300, 345, -210, 1439, -1439, 765, -1, 1, 60, -60, 599, -601]:
        set_tz(off)
        cases = []
        for _ in range(max(20, n // 20)):
            y = rng.choice([rng.randint(2, 9998), rng.randint(2, 999), rng.randint(1000, 3000)])
            mo = rng.randint(1, 12); d = rng.randint(1, 28)
            f = [y, mo, d, rng.randint(0, 23), rng.randint(0, 59), rng.randint(0, 59), rng.choice([0, 0, rng.randint(0, 999), 1, 10, 100, 999]), off]
            cases.append((f, rng.choice([0, 0, 0, 1, 999, rng.randint(0, 999)])))
        for (f, sub), r in zip(cases, batch([{'op': 'isotext_format', 'fields': f, 'sub': sub} for f, sub in cases])):
            e = V.value_string(datetime.datetime(f[0], f[1], f[2], f[3], f[4], f[5], f[6] * 1000 + sub))
            ed = datetime.date(f[0], f[1], f[2]).isoformat()
            k += 1
            if r != {'text': e, 'date': ed, 'back': f}: bad += 1; print('FORMAT MISMATCH', f, sub, e, ed, r)
            if dt7(V.value_parse_datetime(e)) != f[:7]: bad += 1; print('WITNESS roundtrip', f, e)     # the property itself
            if dt7(V.value_parse_datetime(ed)) != f[:3] + [0, 0, 0, 0]: bad += 1; print('WITNESS date roundtrip', f, ed)
    print('format cases', k)
    # 4 the rendered sources
    r = batch([{'op': 'isotext_source'}])[0]
    if r != {'date': V._R_DATE.pattern, 'datetime': V._R_DATETIME.pattern} or (V._R_DATE.flags, V._R_DATETIME.flags) != (256, 256):
        bad += 1; print('SOURCE MISMATCH', r)
    print('BAD', bad)
    return bad

if __name__ == '__main__':
    sys.exit(1 if main(int(sys.argv[1]) if len(sys.argv) > 1 else 0, int(sys.argv[2]) if len(sys.argv) > 2 else 3000) else 0)
