# correspondence sketch for drv_c19x (run under TZ=UTC or a fixed-offset zone such as Etc/GMT-3; OFF = zone offset in seconds)
import os, time, json, csv, io, re, random, subprocess, datetime
os.environ.setdefault('TZ', 'UTC'); time.tzset(); OFF = -time.timezone
from fractions import Fraction
from bare_script.library import SCRIPT_FUNCTIONS, _R_DATA_PARSE_CSV_LINES
from bare_script.value import value_string
PARSE = SCRIPT_FUNCTIONS['dataParseCSV']; EXE = '/verif/lean/.lake/build/bin/drv_c19x'
EPOCH1 = datetime.datetime(1, 1, 1); US = datetime.timedelta(microseconds=1)

def batch(reqs):                       # in the harness: ctx.driver.batch(reqs)
    inp = ''.join(json.dumps(r, ensure_ascii=True) + '\n' for r in reqs)
    out = subprocess.run([EXE], input=inp.encode('ascii'), stdout=subprocess.PIPE, check=True).stdout.decode().splitlines()
    return [json.loads(l) for l in out]

def enc(v):                            # wire form of a value (as Drv/C19)
    if v is None: return {'t': 'null'}
    if isinstance(v, bool): return {'t': 'bool', 'v': v}
    if isinstance(v, str): return {'t': 'str', 'v': v}
    if isinstance(v, (int, float)): fr = Fraction(v); return {'t': 'num', 'v': [fr.numerator, fr.denominator]}
    if isinstance(v, datetime.datetime): return {'t': 'dt', 'v': (v - EPOCH1) // US}
    return {'t': 'other', 'v': repr(v)}

def round_nums(e):                     # model numbers are the exact rationals of the text: round to the double float() returns
    if isinstance(e, dict) and e.get('t') == 'num':
        p, q = e['v']
        try: fr = Fraction(p / q)
        except OverflowError: return e
        return {'t': 'num', 'v': [fr.numerator, fr.denominator]}
    if isinstance(e, dict): return {k: round_nums(v) for k, v in e.items()}
    if isinstance(e, list): return [round_nums(x) for x in e]
    return e

def impl_lines(args): return [l for a in args if a is not None for l in _R_DATA_PARSE_CSV_LINES.split(a) if l]

def impl_records(args):
    try: return {'records': list(csv.reader(impl_lines(args), skipinitialspace=True))}
    except csv.Error as e: return {'error': 'fieldLimit' if 'field limit' in str(e) else 'newline'}

def impl_parse(args):                  # same shape as the answer of csvtext_parse
    header = csv.DictReader(impl_lines(args), skipinitialspace=True).fieldnames if impl_records(args).get('records') is not None else None
    try: data = PARSE(list(args), None)
    except csv.Error as e: return {'error': {'csv': 'fieldLimit' if 'field limit' in str(e) else 'newline'}}
    except TypeError as e:
        m = re.match(r'Invalid "(.*)" field value .*, expected type (\w+)$', str(e), re.S)
        return {'error': {'field': m.group(1), 'type': m.group(2)}}
    return {'header': header, 'rows': [{'row': [[k, enc(v)] for k, v in d.items() if k is not None], 'rest': d.get(None)} for d in data]}

def cell_wire(v):                      # typed cell for csvtext_roundtrip
    if v is None: return {'t': 'null'}
    if isinstance(v, bool): return {'t': 'bool', 'v': v}
    if isinstance(v, int): return {'t': 'int', 'v': v}
    if isinstance(v, float): return {'t': 'float', 'v': repr(v)}
    if isinstance(v, datetime.datetime): return {'t': 'dt', 'v': [v.year, v.month, v.day, v.hour, v.minute, v.second, v.microsecond // 1000]}
    return {'t': 'str', 'v': v}

def py_write(header, rows, le, trailing):   # independent RFC 4180 writer (oracle for the text)
    q = lambda s, lone: '"' + s.replace('"', '""') + '"' if (lone and s == '') or any(c in s for c in ',"\r\n') else s
    recs = [','.join(q(s, len(r) == 1) for s in r) for r in [header] + rows]
    return le.join(recs) + (le if trailing and recs else '')

ATOMS = ['a', '1', ',', ',', '"', '"', '\n', '\r', '\r\n', ' ', 'é', ' ', '\x0b', '\x85', 'true', 'null', '2024-02-30', '2024-02-29', '1e5', '\U0001F600', '\x00', '\t']
STRS = ['a,b', 'say "hi"', 'x\ny', 'x\r\ny', '\r', '', ' lead', ' lead,q', 'né \U0001F600', '2024-02-30', '12', 'true', 'null', 'abc', '"', ',', '2024-02-29', ' ', '.5', 'inf', '\n']
def gen_cell(rng, kind):
    if rng.random() < 0.2: return None
    if kind == 'number': return rng.choice([0, -1, 17, 10 ** 22, rng.randint(-10 ** 6, 10 ** 6), 0.5, -0.0, 1e300, 5e-324, 1.5e-7, 123.0, 1e16, rng.random() * 10 ** rng.randint(-20, 20)])
    if kind == 'boolean': return rng.random() < 0.5
    if kind == 'datetime': return datetime.datetime(rng.randint(1900, 2100), rng.randint(1, 12), rng.randint(1, 28), rng.randint(0, 23), rng.randint(0, 59), rng.randint(0, 59), rng.choice([0, 1000, 999000]))
    return rng.choice(STRS)

def run(n, seed):
    rng = random.Random(seed); bad = 0
    # 1. reader: lines / records / parse on hostile texts (one or several text arguments, null arguments)
    cases = [[None if rng.random() < 0.05 else ''.join(rng.choice(ATOMS) for _ in range(rng.randint(0, 14))) for _ in range(rng.choice([1, 1, 2, 3]))] for _ in range(n)]
    cases += [['a\n' + 'x' * 131072], ['a\n' + 'x' * 131073], ['a,b', '1,2', None, '3,4\n5,6'], ['\na,b\n1,2'], ['a,b\n1,2,3'], ['a,a\n1,2']]
    for c, r in zip(cases, batch([{'op': 'csvtext_lines', 'text': ''.join(a or '' for a in c)} for c in cases])):
        bad += r['lines'] != impl_lines([''.join(a or '' for a in c)])
    for c, r in zip(cases, batch([{'op': 'csvtext_records', 'args': c} for c in cases])): bad += r != impl_records(c)
    for c, r in zip(cases, batch([{'op': 'csvtext_parse', 'args': c, 'off': OFF} for c in cases])): bad += round_nums(r) != impl_parse(c)
    # 2. writer + theorem: typed tables -> text (model) -> real dataParseCSV; when "ok" the real result must be the original values
    tabs = []
    for _ in range(n):
        names = rng.sample(['a', 'b', 'c d', 'x,y', 'q"', ' sp', '', 'é', 'l\nf'], rng.randint(1, 4))
        kinds = [rng.choice(['number', 'boolean', 'datetime', 'string', 'string']) for _ in names]
        tabs.append({'header': names, 'rows': [[gen_cell(rng, k) for k in kinds] for _ in range(rng.randint(0, 5))], 'nullText': rng.choice(['', 'null']),
                     'lineEnd': rng.choice(['lf', 'crlf', 'cr']), 'trailing': rng.random() < 0.4})
    res = batch([{'op': 'csvtext_roundtrip', 'header': t['header'], 'rows': [[cell_wire(v) for v in r] for r in t['rows']], 'nullText': t['nullText'],
                  'offL': OFF, 'offU': OFF, 'lineEnd': t['lineEnd'], 'trailing': t['trailing']} for t in tabs])
    nok = 0
    for t, r in zip(tabs, res):
        texts = [[t['nullText'] if v is None else value_string(v) for v in row] for row in t['rows']]
        bad += r['text'] != py_write(t['header'], texts, {'lf': '\n', 'crlf': '\r\n', 'cr': '\r'}[t['lineEnd']], t['trailing'])   # writer model = RFC 4180
        impl = impl_parse([r['text']])
        bad += round_nums(r['parsed']) != impl                                                                                     # reader model = dataParseCSV
        if r['ok']:                                                                                                                # the theorem's claim, on the real code
            nok += 1
            orig = [[[h, enc(v)] for h, v in zip(t['header'], row)] for row in t['rows']]
            bad += not ('rows' in impl and [d['row'] for d in impl['rows']] == orig == round_nums(r['expected']) and impl['header'] == t['header'])
    # 3. writer vs Python's csv.writer (excel dialect = CRLF after every record)
    for t, r in zip(tabs, batch([{'op': 'csvtext_write', 'header': t['header'], 'rows': [[t['nullText'] if v is None else value_string(v) for v in row] for row in t['rows']],
                                  'lineEnd': 'crlf', 'trailing': True} for t in tabs])):
        buf = io.StringIO(newline=''); w = csv.writer(buf); w.writerow(t['header'])
        for row in t['rows']: w.writerow([t['nullText'] if v is None else value_string(v) for v in row])
        bad += buf.getvalue() != r['text']
    print('cases', len(cases), 'tables', len(tabs), 'hypotheses hold', nok, 'disagreements', bad)
run(2000, 0)
