"""Correspondence of drv_c12x (LibH2) with the real implementation: every case in both spellings."""
import copy, datetime, json, random, re, subprocess, sys
from fractions import Fraction
from bare_script.library import SCRIPT_FUNCTIONS
from bare_script.value import value_string, value_json, ValueArgsError, R_NUMBER_CLEANUP
from bare_script.parser import parse_script
from bare_script.runtime import execute_script

DRV = '/verif/lean/.lake/build/bin/drv_c12x'
EPOCH = datetime.datetime(1, 1, 1)

def enc(v):
    if v is None or isinstance(v, bool): return v
    if isinstance(v, int): return {'i': v}
    if isinstance(v, float):
        f = Fraction(v); return {'f': [f.numerator, f.denominator]}
    if isinstance(v, str): return {'s': v}
    if isinstance(v, list): return {'a': [enc(x) for x in v]}
    if isinstance(v, dict): return {'o': [[k, enc(x)] for k, x in v.items()]}
    if isinstance(v, datetime.datetime): return {'k': ['datetime', (v - EPOCH) // datetime.timedelta(milliseconds=1)]}
    if callable(v): return {'k': ['function', 0]}
    raise TypeError(v)

def canon(v):
    """implementation value -> comparable form (numbers by value)"""
    if v is None or isinstance(v, (bool, str)): return v
    if isinstance(v, (int, float)): return ('q', Fraction(v))
    if isinstance(v, list): return [canon(x) for x in v]
    if isinstance(v, dict): return {k: canon(x) for k, x in v.items()}
    if isinstance(v, datetime.datetime): return ('k', 'datetime', (v - EPOCH) // datetime.timedelta(milliseconds=1))
    if callable(v): return ('k', 'function', 0)
    raise TypeError(v)

def dec_py(j):
    """response value -> python value (numbers as floats) for tag expansion"""
    if j is None or isinstance(j, bool): return j
    (k, x), = j.items()
    if k == 'q': return float(Fraction(x[0], x[1]))
    if k == 's': return x
    if k == 'a': return [dec_py(y) for y in x]
    if k == 'o': return {kk: dec_py(y) for kk, y in x}
    if k == 'k':
        return EPOCH + datetime.timedelta(milliseconds=x[1]) if x[0] == 'datetime' else (lambda a, o: None)
    raise ValueError(j)

R_F = re.compile(r'⟦F:(-?\d+)/(\d+)⟧')
R_X = re.compile(r'⟦X:(-?\d+)/(\d+):(-?\d+)⟧')
R_O = re.compile(r'⟦O:(\w+):(-?\d+)⟧')
R_C = re.compile(r'⟦C:(.*?)⟧', re.S)
R_J = re.compile(r'⟦J:(null|-?\d+):(.*?)⟧', re.S)

def expand(s):
    s = R_J.sub(lambda m: value_json(dec_py(json.loads(m[2])), None if m[1] == 'null' else int(m[1])), s)
    s = R_F.sub(lambda m: value_string(float(Fraction(int(m[1]), int(m[2])))), s)
    s = R_X.sub(lambda m: f'{float(Fraction(int(m[1]), int(m[2]))):.{int(m[3])}f}', s)
    s = R_O.sub(lambda m: value_string(EPOCH + datetime.timedelta(milliseconds=int(m[2]))) if m[1] == 'datetime' else f'<{m[1]}>', s)
    s = R_C.sub(lambda m: R_NUMBER_CLEANUP.sub('', m[1]), s)
    return s

def dec(j):
    """response value -> comparable form"""
    if j is None or isinstance(j, bool): return j
    (k, x), = j.items()
    if k == 'q': return ('q', Fraction(float(Fraction(x[0], x[1]))))     # rnd = id in the driver: round once here
    if k == 's': return expand(x)
    if k == 'a': return [dec(y) for y in x]
    if k == 'o': return {kk: dec(y) for kk, y in x}
    if k == 'k': return ('k', x[0], x[1])
    raise ValueError(j)

def spell(v, mode, rng=None):
    """respell every integral number: mode 'i' int, 'f' float, 'm' mixed at random"""
    if isinstance(v, bool) or v is None or isinstance(v, str): return v
    if isinstance(v, (int, float)):
        if float(v) != int(v): return v
        m = mode if mode != 'm' else rng.choice('if')
        return int(v) if m == 'i' else float(v)
    if isinstance(v, list): return [spell(x, mode, rng) for x in v]
    if isinstance(v, dict): return {k: spell(x, mode, rng) for k, x in v.items()}
    return v

def impl_call(name, args):
    args = copy.deepcopy(args)
    keep = list(args)           # the argument objects (value_args_validate mutates the list, not the objects)
    try:
        r = SCRIPT_FUNCTIONS[name](args, None)
    except ValueArgsError as e:
        r = e.return_value
    except Exception:           # the call wrapper of runtime.py: null
        r = None
    return canon(r), [canon(a) for a in keep]

def cases(rng):
    N = [0, 1, 2, 3, -1, -2, 7, 10, 12, 100, 1.5, -2.5, 0.25, 2.75, 1000000, 999999999999999]
    V = [None, True, False, 'a', 'b', '', 0, 1, 2, -1, 1.5, [1, 2], [1, 2.5, 'x'], [], {'a': 1}, {'b': 2, 'a': [1, 2]}, [[1], [2, 3]],
         datetime.datetime(2020, 1, 2, 3, 4, 5, 6000)]
    out = []
    def add(name, *args): out.append((name, list(args)))
    for v in V:
        add('arrayCopy', v); add('arrayLength', v); add('arrayPop', v); add('arrayShift', v); add('stringLength', v); add('stringNew', v)
        add('jsonStringify', v); add('jsonStringify', v, 2); add('jsonStringify', v, 4); add('jsonStringify', v, None)
        add('mathAbs', v); add('mathCeil', v); add('mathFloor', v); add('mathSign', v)
        for w in V:
            add('arrayExtend', v, w); add('systemCompare', v, w); add('arrayPush', v, w); add('arrayPush', v, w, 1)
            add('mathMax', v, w); add('mathMin', v, w, 1)
        add('arrayJoin', v, ', '); add('arrayJoin', V, v)
    add('arrayCopy'); add('arrayCopy', [1], 2); add('arrayNew'); add('arrayNew', 1, [2], 'x'); add('arrayPush', [1]); add('mathMax'); add('mathMin')
    add('arrayJoin', N, ','); add('arrayJoin', V, ''); add('stringLength', 'héllo'); add('stringLength', 'a', 'b')
    add('jsonStringify', {'a': 1}, 0); add('jsonStringify', {'a': 1}, 1.5); add('jsonStringify', {'a': 1}, -1); add('jsonStringify', [1, [2, {'x': 3}]], 3)
    add('jsonStringify', {'a': 1}, 'x'); add('jsonStringify')
    for x in N:
        add('stringNew', x); add('mathAbs', x); add('mathCeil', x); add('mathFloor', x); add('mathSign', x); add('mathRound', x)
        add('numberToFixed', x)
        for d in [0, 1, 2, 3, 5, 1.5, -1]:
            add('mathRound', x, d); add('numberToFixed', x, d); add('numberToFixed', x, d, True); add('numberToFixed', x, d, 0)
        for y in N:
            add('mathMax', x, y); add('mathMin', x, y); add('systemCompare', x, y); add('mathMax', [x], [y], x)
    for _ in range(300):
        add('mathMax', *[rng.choice(N + V) for _ in range(rng.randint(0, 5))])
        add('mathMin', *[rng.choice(N + V) for _ in range(rng.randint(0, 5))])
        add('systemCompare', rng.choice(V), rng.choice(V))
    F = [0, 1, -1, 2, 12, 13, 24, 25, 28, 29, 31, 32, 59, 60, 61, 100, 365, 366, 999, 1000, 1001, -60, -1000, 5000, -5000, 86400, 1.5]
    add('datetimeNew', 2020, 1, 1); add('datetimeNew', 2020, 1); add('datetimeNew', 99, 1, 1); add('datetimeNew', 2020, 1, 10001)
    add('datetimeNew', 9999, 12, 31, 23, 59, 59, 999); add('datetimeNew', 9999, 12, 31, 24); add('datetimeNew', 100, 1, 0); add('datetimeNew', 2020, 'x', 1)
    add('datetimeNew', 2020, 1, 1, 0, 0, 0, 0, 0)
    for _ in range(600):
        add('datetimeNew', rng.choice([100, 1900, 2000, 2020, 2023, 2024, 9999, 400]), rng.choice(F), rng.choice(F),
            *[rng.choice(F) for _ in range(rng.randint(0, 4))])
    return out

def run():
    rng = random.Random(int(sys.argv[1]) if len(sys.argv) > 1 else 0)
    reqs, meta = [], []
    for name, args in cases(rng):
        for mode in 'ifm':
            a = spell(args, mode, rng)
            reqs.append({'op': 'h2_call', 'fn': name, 'args': [enc(x) for x in a]}); meta.append((name, a))
    p = subprocess.run([DRV], input='\n'.join(json.dumps(r) for r in reqs) + '\n', capture_output=True, text=True, check=True)
    resps = [json.loads(l) for l in p.stdout.splitlines()]
    assert len(resps) == len(reqs)
    bad = 0; per = {}
    for (name, a), r in zip(meta, resps):
        per[name] = per.get(name, 0) + 1
        ir, ia = impl_call(name, a)
        for layer in ('host', 'abstract'):
            mr, ma = dec(r[layer]['result']), [dec(x) for x in r[layer]['args']]
            if mr != ir or ma != ia:
                bad += 1
                if bad < 15: print('DISAGREE', layer, name, a, '\n   impl', ir, ia, '\n   model', mr, ma)
    print('calls', len(reqs), 'disagreements', bad, per)

if __name__ == '__main__':
    run()


def run_ops():
    from bare_script.runtime import evaluate_expression
    rng = random.Random(1)
    N = [0, 1, 2, 3, -1, -2, 7, 10, 12, 100, 1.5, -2.5, 0.25, 2.75, -7, 5, 1000000, 999999999999999, -999999999999999]
    reqs, meta = [], []
    for op, sym in [('neg', '-'), ('add', '+'), ('sub', '-'), ('div', '/'), ('mod', '%')]:
        for a in N:
            for b in (N if op != 'neg' else [0]):
                for mode in 'ifm':
                    x, y = spell(a, mode, rng), spell(b, mode, rng)
                    reqs.append({'op': 'h2_op', 'operator': op, 'a': enc(x), 'b': enc(y)}); meta.append((op, sym, x, y))
    p = subprocess.run([DRV], input='\n'.join(json.dumps(r) for r in reqs) + '\n', capture_output=True, text=True, check=True)
    resps = [json.loads(l) for l in p.stdout.splitlines()]
    bad = 0
    for (op, sym, x, y), r in zip(meta, resps):
        if op == 'neg':
            expr = {'unary': {'op': '-', 'expr': {'number': x}}}
        else:
            expr = {'binary': {'op': sym, 'left': {'number': x}, 'right': {'number': y}}}
        iv = evaluate_expression(expr)
        h, a = r['host'], r['abstract']
        def val(j):
            if j is None: return None
            (k, q), = j.items()
            return float(Fraction(q, 1)) if k == 'i' else float(Fraction(q[0], q[1]))
        ok = (iv is None and h is None and a is None) or (iv is not None and h is not None and a is not None and val(h) == iv and val(a) == iv)
        # host spelling of the result: int iff the model says int
        if ok and iv is not None and op != 'div':
            ok = isinstance(iv, int) == ('i' in h)
        if not ok:
            bad += 1
            if bad < 10: print('DISAGREE op', op, x, y, 'impl', repr(iv), 'model', h, a)
    print('ops', len(reqs), 'disagreements', bad)


def run_for():
    rng = random.Random(2)
    script = parse_script('for v, i in vals:\n  arrayPush(seen, arrayNew(i, v))\nendfor\n')
    reqs, meta = [], []
    VALS = [[], [1], [1, 2.5, 'x'], ['a', None, [1], {'k': 2}], list(range(7)), None, 'abc', 5, {'a': 1}]
    for vals in VALS:
        for z in (0, 0.0):
            for o in (1, 1.0):
                reqs.append({'op': 'h2_for', 'zero': enc(z), 'one': enc(o), 'values': enc(vals)}); meta.append((vals, z, o))
    p = subprocess.run([DRV], input='\n'.join(json.dumps(r) for r in reqs) + '\n', capture_output=True, text=True, check=True)
    resps = [json.loads(l) for l in p.stdout.splitlines()]
    bad = 0
    for (vals, z, o), r in zip(meta, resps):
        m = copy.deepcopy(script)
        def patch(node):
            if isinstance(node, dict):
                for k, v in list(node.items()):
                    if k == 'number' and v == 0 and not isinstance(v, bool): node[k] = z
                    elif k == 'number' and v == 1: node[k] = o
                    else: patch(v)
            elif isinstance(node, list):
                for x in node: patch(x)
        patch(m)
        seen = []
        execute_script(m, {'globals': {'vals': copy.deepcopy(vals), 'seen': seen}, 'maxStatements': 1000})
        impl = [[canon(p[0]), canon(p[1])] for p in seen]
        for layer in ('host', 'abstract'):
            mod = [[dec(p[0]), dec(p[1])] for p in r[layer]]
            if mod != impl:
                bad += 1
                if bad < 10: print('DISAGREE for', layer, vals, z, o, impl, mod)
    print('for', len(reqs), 'disagreements', bad)


if __name__ == '__main__':
    run_ops(); run_for()
